"""C09 – restarting an endpoint is transparent to the session.  DESIGN.md §6 C09, §4 D13 D14 D15.

tie:    Restart model (lean/AsyncFix/Model/Restart.lean: `restart`, the segmented `send_msg` /
        `_process_message`, crash states) ⇄ the REAL AsyncFIXConnection over a SQLite FILE journal that is
        really discarded and rebuilt (harness/c09_impl.py):
          * random histories (logon, application traffic both ways, gaps, resends, multi-number gap fills,
            sequence resets, hostile frames) in lock-step, with restarts at quiescent points and kills
            inside handlers; after every restart the new object's whole state is compared with the model's;
          * kill sweep: every kill site of sampled single steps of the session family's exhaustive table.
oracle: the property's sentences on the implementation alone (never calls the model): scripted sessions
        against a conforming simulated counterparty, restarts and kills at every site, reconnect + Logon.
"""
from __future__ import annotations

import glob
import json
import os
import shutil
import tempfile

from . import common as C
from . import sess_common as S
from .c09_impl import RImpl

PROP = "C09"
PROPS_MODULES = ["AsyncFix.Props.C09"]
FINDINGS_MODULE = "AsyncFix.Findings.C09"
ASSUMPTIONS = [
    "a kill is process death: nothing of the object survives, the journal file keeps exactly what was committed "
    "(SQLite's atomic commit and the journaler's transaction discipline are property C08 / C13)",
    "application hooks return normally and do not call back into the connection; the transport's write/drain "
    "return normally unless the kill happens there",
    "messages carry plain tags only (no repeating groups / repeated tags), numeric header fields are ASCII, "
    "sequence numbers fit SQLite's 64-bit INTEGER (session family restrictions)",
    "the new object is built with the same CompIDs and heartbeat period over the same journal file; nobody else "
    "writes the file in between",
    "the model knows ONE session: further sessions in the same journal file (CompID pairs incl. the mirror image, "
    "counters/rows ahead, behind, interleaved, created before or after ours), the in-memory journal / object-only "
    "restart over a live Journaler, and the receive buffer of the library's reader task are covered by "
    "correspondence (whole endpoint state compared, other sessions must stay untouched) and oracle only",
    "'completed' (C09: 'the restored counters equal those the old object held for everything it had completed') is read "
    "as: the frame was in sequence and its handler ran to the point where the application callback RETURNED OR RAISED "
    "(any exception, also asyncio.CancelledError / a KeyboardInterrupt-like BaseException) or its reply's write/drain "
    "raised; such a frame counts as delivered and must be counted and journaled (the code does this in a `finally`). "
    "Collaborator faults (hooks / transport raising once, then working again) are outside the Lean model (hooks return "
    "normally there): oracle only",
    "theorems are about runs in which no exception is caught or escapes (stored_eq_live, no_number_reuse) and "
    "the application does not send frames that carry their own MsgSeqNum (SequenceReset / PossDupFlag=Y) or call "
    "reset_seq_num(); the oracle uses the same scope",
]
MODELLED_NOT_VERIFIED = [
    "C09: restart = __init__ + create_or_load is modelled by `Conn.create`; the segment boundaries of send_msg / "
    "_process_message are tied to the code by kills at the corresponding call sites (every site of sampled "
    "single steps + random histories); kill points inside a segment that holds several journal operations "
    "(resend servicing, the two set_seq_num of _process_seqreset, Logon reply + ResendRequest) are covered by "
    "the oracle only",
    "C09: `_msg_buffer` / socket_read_task (bytes, partial frames of a dead connection) are outside the session model; the "
    "counterparty-dies-mid-frame scenarios run the real reader task of an acceptor (real _handle_accept) and of an "
    "initiator (real connect()) - oracle only",
]

SIG_D13 = "C09-seqreset-stored-inbound-counter-lags"
SIG_D15 = "C09-redelivery-after-crash-between-callback-and-journal"
SIG_RESEND = "C09-kill-during-resend-servicing-rewinds-outbound-counter"
T0 = S.T0


def mktmp():
    base = "/dev/shm" if os.path.isdir("/dev/shm") and os.access("/dev/shm", os.W_OK) else None
    return tempfile.mkdtemp(prefix="c09-", dir=base)


# ------------------------------------------------------------------------------------------------
# kill sites -> model segments
# ------------------------------------------------------------------------------------------------
SEND_K = {"PO-": 2, "POc": 2, "PO+": 3, "W-": 3, "W+": 4, "N-": 4, "N+": 5}
RECV_K = {"M-": 1, "M+": 2, "PI-": 4, "PIc": 4, "PI+": 5}


def classify(kind, sites, j):
    """('exact', k) – the kill site is a segment boundary of the model;
    ('member', strict) – the kill is inside a segment: the state must be one of the boundary states when
    the event holds at most one other journal operation (strict), else it may be an intermediate one."""
    lab = sites[j]
    if kind == "send":
        return ("exact", SEND_K[lab])
    if kind == "recv" and lab in RECV_K:
        return ("exact", RECV_K[lab])
    nested_ops = sum(1 for s in sites if s in ("PO-", "Q-"))
    return ("member", nested_ops <= 1)


# ------------------------------------------------------------------------------------------------
# MULTIPLICITY: further sessions in the journal the endpoint is rebuilt over
# ------------------------------------------------------------------------------------------------
def other_sessions(rng, a: S.AbsConn, force=False):
    """0-3 further sessions for the same journal file: other CompID pairs (incl. the mirror image of ours and
    pairs sharing one CompID with ours), counters and rows ahead of / behind / interleaved with ours."""
    if not force and rng.random() < 0.45:
        return [], False
    pairs = [(a.target, a.sender), (a.sender, a.target + "2"), (a.sender + "B", a.target), ("VENUE2", "DESK7")]
    rng.shuffle(pairs)
    out = []
    for snd, tgt in pairs[: rng.randint(1, 3)]:
        if (snd, tgt) == (a.sender, a.target):
            continue
        rel = rng.choice(["ahead", "behind", "interleaved", "empty", "far"])
        base_o, base_i = a.next_out - 1, a.next_in - 1
        if rel == "ahead":
            o, i = base_o + rng.choice([1, 3, 11]), base_i + rng.choice([1, 4])
        elif rel == "behind":
            o, i = max(0, base_o - rng.choice([1, 2])), max(0, base_i - 1)
        elif rel == "interleaved":
            o, i = base_o + 2, max(0, base_i - 1)
        elif rel == "far":
            o, i = base_o + 1000, base_i + 2000
        else:
            o, i = 0, 0
        out_rows = [S.row(snd, tgt, "D", ((11, f"oth{n}"), (58, "x")), n) for n in range(max(1, o - 2), o + 1)]
        if rel == "interleaved":
            out_rows = out_rows[::2]
        in_rows = [S.row(tgt, snd, "D", ((11, f"oin{n}"),), n) for n in range(max(1, i - 1), i + 1)]
        if rel == "ahead" and rng.random() < 0.3:   # rows above that session's own stored counter
            out_rows.append(S.row(snd, tgt, "D", ((11, "beyond"),), o + 2))
        out.append({"sender": snd, "target": tgt, "out": o, "inb": i, "out_rows": out_rows, "in_rows": in_rows,
                    "rel": rel})
    return out, rng.random() < 0.5


def others_json(others):
    return [{k: v for k, v in o.items() if k != "key"} for o in others]


def others_from_json(js):
    return [dict(o, out_rows=[(r[0], (r[1][0], [tuple(x) for x in r[1][1]])) for r in o["out_rows"]],
                 in_rows=[(r[0], (r[1][0], [tuple(x) for x in r[1][1]])) for r in o["in_rows"]]) for o in js or []]


# ------------------------------------------------------------------------------------------------
# lock-step execution of one history (implementation first; model lines are checked afterwards)
# ------------------------------------------------------------------------------------------------
class Hist:
    def __init__(self, impl, start, role, label="", others=None, others_first=False, memory=False):
        self.impl, self.start, self.role, self.label = impl, start, role, label
        self.others, self.others_first, self.memory = list(others or []), others_first, memory
        impl.new_file(others=[dict(o) for o in self.others], others_first=others_first, memory=memory)
        self.others_before = impl.others_snapshot()
        impl.load(start)
        self.a = start
        self.script = []      # replayable: ["ev", sr, evtok] | ["restart"] | ["kill", sr, evtok, j]
        self.checks = [("rst.load " + start.tokens(), ("eq", "ok"), "load")]
        self.obs = []         # for statistics
        self.clean = True     # no exception effect, no own-numbered application send, no reset so far

    # -- ordinary event
    def ev(self, sr, ev, lab=""):
        eff, _ = self.impl.run_event(sr, ev)
        post = self.impl.dump()
        self.script.append(["ev", sr, S.event_tokens(ev)])
        self.checks.append((f"rst.ev {sr} {S.event_tokens(ev)}", ("eq", S.reply(eff, post)), lab or ev[0]))
        self.obs.append(("ev", lab or ev[0], self.a.state, tuple(e.split("=")[0] for e in eff)))
        self.a = S.parse_conn_tokens(post)
        return eff

    def config(self):
        return {"others": others_json(self.others), "others_first": self.others_first, "memory": self.memory}

    # -- quiescent restart
    def restart(self, mode="file"):
        old = self.a
        post = self.impl.restart(self.role, mode)
        self.script.append(["restart", mode])
        self.checks.append((f"rst.restart {self.role}", ("eq", "- # " + post), "restart"))
        new = S.parse_conn_tokens(post)
        self.obs.append(("restart", "restart:" + ("memory" if self.memory else mode) + (":multi" if self.others else ""), old.state,
                         ("in=" if new.next_in == old.next_in else "in!",
                          "out=" if new.next_out == old.next_out else "out!")))
        self.a = new
        return old, new

    # -- kill inside an event (j = site index), then restart
    def kill(self, sr, ev, j, lab=""):
        impl, pre = self.impl, self.a
        impl.load(pre)
        impl.run_event(sr, ev)              # dry run: which sites does this event have
        sites = list(impl.sites)
        if j is None or j >= len(sites):
            impl.load(pre)
            return self.ev(sr, ev, lab), None
        impl.load(pre)
        eff, killed = impl.run_event(sr, ev, plan=j)
        assert killed and impl.kill_label == sites[j], (sites, j, impl.kill_label)
        post = impl.restart(self.role)
        kind = ev[0]
        cls = classify(kind, sites, j)
        et = S.event_tokens(ev)
        self.script.append(["kill", sr, et, j])
        what = f"kill:{kind}:{sites[j]}"
        if cls[0] == "exact":
            k = cls[1]
            if kind == "send":
                line = f"rst.killsend {k} {self.role} {et.split(' ', 1)[1]}"
            else:
                line = f"rst.killrecv {sr} {k} {self.role} {et.split(' ', 1)[1]}"
            self.checks.append((line, ("eq", S.reply(eff, post)), what))
        else:
            if kind == "recv":
                line = f"rst.recvstates {sr} {self.role} {pre.tokens()} E {et.split(' ', 1)[1]}"
            else:
                line = f"rst.evstates {sr} {self.role} {pre.tokens()} E {et}"
            self.checks.append((line, ("member", post, cls[1]), what))
            self.checks.append(("rst.load " + post, ("eq", "ok"), "resync"))
        self.obs.append(("kill", f"{lab or kind}:{sites[j]}", pre.state, (cls[0],)))
        self.a = S.parse_conn_tokens(post)
        return eff, sites[j]


def verify(hists, drv, stats):
    """run the model on all recorded lines; returns disagreements"""
    lines, index = [], []
    for hi, h in enumerate(hists):
        for ci, (line, _, _) in enumerate(h.checks):
            lines.append(line)
            index.append((hi, ci))
    replies = drv.batch(lines) if lines else []
    dis, bad = [], set()
    for (hi, ci), ml in zip(index, replies):
        if hi in bad:
            continue
        h = hists[hi]
        line, chk, what = h.checks[ci]
        ok = True
        if chk[0] == "eq":
            ok = ml == chk[1]
            want = chk[1]
        elif chk[0] == "fail":      # a sentence about the implementation alone failed while the history ran
            ok, want = False, chk[1]
        else:
            states = ml.split(" | ")
            want = chk[1]
            if want in states:
                stats["member_boundary"] = stats.get("member_boundary", 0) + 1
            elif chk[2]:
                ok = False
            else:
                stats["member_intermediate"] = stats.get("member_intermediate", 0) + 1
        if not ok:
            bad.add(hi)
            dis.append({"input": {"history": {"start": h.start.tokens(), "role": h.role, "script": h.script,
                                              **h.config()},
                                  "label": h.label, "check": what, "line": line[:3000]},
                        "model": ml[:3000], "impl": want[:3000]})
    return len(lines), dis


# ------------------------------------------------------------------------------------------------
# generators
# ------------------------------------------------------------------------------------------------
def random_history(impl, rng, max_len, stats):
    role = rng.choice([1, 1, 2])
    start = S.fresh(role, rng)
    others, first = other_sessions(rng, start)
    memory = rng.random() < 0.12
    h = Hist(impl, start, role, "random", others, first, memory)
    now = T0
    n = rng.randint(max_len // 2, max_len)
    for _ in range(n):
        a = h.a
        now += rng.choice([0, 125, 250, 1000, 1000, 3000, a.hb * 1000, a.hb * 2000 + 125])
        r = rng.random()
        if r < 0.09:
            h.restart(rng.choice(["file", "file", "object"]))
            continue
        sr, ev, lab = S.next_event(rng, a, now)
        if memory:
            h.ev(sr, ev, lab)     # a kill has no meaning for a journal that lives in the dying process
        elif ev[0] in ("send", "recv") and r < 0.27 or ev[0] in ("tick", "testreq", "disc", "eof") and r < 0.16:
            h.kill(sr, ev, rng.randrange(8), lab)
        else:
            h.ev(sr, ev, lab)
    h.restart()
    if h.others and impl.others_snapshot() != h.others_before:
        h.checks.append(("ping", ("fail", "another session of the journal was modified"), "others-untouched"))
    return h


def sweep_cases(rng, n):
    """sampled single steps of the session family's table (send / recv events only)"""
    pool = [c for c in S.single_step_cases(rng, full=False) if c[2][0] in ("send", "recv")]
    rng.shuffle(pool)
    return pool[:n]


def corpus_scripts():
    out = []
    for path in sorted(glob.glob(os.path.join(C.VERIF, "corpus", "restart", "*.json"))):
        with open(path) as f:
            for e in json.load(f):
                out.append(e)
    return out


def parse_event(text):
    from .c11 import parse_event as pe
    return pe(text)


def replay_script(impl, e):
    h = Hist(impl, S.parse_conn_tokens(e["start"]), e["role"], "corpus:" + e.get("label", ""),
             others_from_json(e.get("others")), e.get("others_first", False), e.get("memory", False))
    for st in e["script"]:
        if st[0] == "ev":
            h.ev(st[1], parse_event(st[2]))
        elif st[0] == "restart":
            h.restart(st[1] if len(st) > 1 else "file")
        else:
            h.kill(st[1], parse_event(st[2]), st[3])
    return h


PARTIAL = [
    "stored_eq_live_partial: outbound half in full; inbound half with the exact lag - stored+1 = live UNLESS the row stored "
    "under the stored inbound counter is a SequenceReset m (then stored = m's MsgSeqNum, live = m's NewSeqNo) [D13, pinned]",
    "stored_eq_live_without_jump_resets: stored = live exactly for histories without a SequenceReset whose NewSeqNo != "
    "MsgSeqNum+1 (jumpReset, decidable); full statement stored_eq_live_full is a def, refuted by Findings.C09.not_stored_eq_live_full",
    "restart_inbound / counted_implies_delivered: full for application frames (never counted-but-undelivered); the converse "
    "exactly_once_full (delivered => counted) is a def, refuted by Findings.C09.not_exactly_once_full [D15, inherent]",
    "scope of the history theorems: admissible events (no reset_seq_num(), no application frame carrying its own MsgSeqNum) and "
    "runs without a swallowed / escaping exception (excFree); restart_no_number_reuse covers every crash point of send_msg, "
    "crash points inside resend servicing are outside it (open finding C09-kill-during-resend-servicing-rewinds-outbound-counter)",
]


def correspondence(ctx):
    for p in PARTIAL:
        ctx.note("partial/scope: " + p)
    tmp = mktmp()
    impl = RImpl(tmp)
    try:
        stats, hists = {}, []
        for e in corpus_scripts():
            hists.append(replay_script(impl, e))
        # kill sweep: every site of sampled single steps
        nsweep = ctx.n(350, 3000)
        sweep_sites = 0
        segeq_lines = []
        for (a, sr, ev, lab) in sweep_cases(ctx.rng, nsweep):
            role = a.role if a.role in (1, 2) else 1
            others, first = other_sessions(ctx.rng, a)
            impl.new_file()
            impl.load(a)
            impl.run_event(sr, ev)
            nsites = len(impl.sites)
            segeq_lines.append(f"rst.segeq {sr} {a.tokens()} E {S.event_tokens(ev)}")
            for j in range(nsites):
                h = Hist(impl, a, role, "sweep:" + lab, others, first)
                h.kill(sr, ev, j, lab)
                hists.append(h)
                sweep_sites += 1
            h = Hist(impl, a, role, "sweep:" + lab, others, first)
            h.ev(sr, ev, lab)
            h.restart(ctx.rng.choice(["file", "object"]))
            hists.append(h)
        nh, hl = ctx.n(1000, 12000), ctx.n(25, 60)
        for _ in range(nh):
            hists.append(random_history(impl, ctx.rng, hl, stats))
        drv = C.Driver()
        nlines, dis = verify(hists, drv, stats)
        seg = drv.batch(segeq_lines) if segeq_lines else []
        for line, r in zip(segeq_lines, seg):
            if r != "1":
                dis.append({"input": {"line": line[:3000]}, "model": "segments != sequential (" + r + ")", "impl": "n/a"})
        dist = {}
        for h in hists:
            for o in h.obs:
                dist.setdefault(o[0], {})
                dist[o[0]][o[1]] = dist[o[0]].get(o[1], 0) + 1
        nontrivial = len({(o[0], o[1], o[2], o[3]) for h in hists for o in h.obs})
        samples = []
        for h in (hists[0], hists[len(hists) // 2], hists[-1]):
            samples.append({"label": h.label, "start": h.start.tokens()[:300], "role": h.role,
                            "script": [[str(x)[:200] for x in st] for st in h.script[:6]],
                            "last_check": [str(x)[:300] for x in h.checks[-1][:2]]})
        kills = sum(dist.get("kill", {}).values())
        return {
            "evaluations": nlines + len(seg),
            "distinct_nontrivial": nontrivial,
            "rule": f"{nh} random histories of length <= {hl} (events of the session family's history generator: logon, "
                    "application traffic both ways, gaps, resends, multi-number gap fills, sequence resets, hostile "
                    "frames, ticks) with the endpoint REALLY rebuilt over the same SQLite file: quiescent restarts "
                    "(p=0.09/step + one at the end) and kills at a random call site inside send_msg / "
                    f"_process_message / tick / disconnect (p~0.2/step); kill sweep: every kill site of {nsweep} sampled "
                    f"single steps of the exhaustive table ({sweep_sites} kills) + their completed run followed by a "
                    "restart; after every restart the whole new object (state, role, counters, timers, stored "
                    "counters, journal rows) and the effects before the kill are compared with the model "
                    "(killsend/killrecv segment prefix + restart); kills inside a segment are compared with the "
                    "boundary states (membership); segeq: the segmented handlers evaluated against the sequential "
                    "model functions on the same steps. Configuration dimensions drawn per history / sweep case: 0-3 OTHER sessions in "
                    "the same journal (ahead / behind / interleaved / far / empty; created before or after ours), file vs "
                    "in-memory journal, restart = reopen the file vs rebuild only the object over the live Journaler, role "
                    "1 / 2 through the real AsyncFIXClient / AsyncFIXDummyServer constructors; other sessions must stay "
                    "untouched. distinct = distinct (kind, label/site, pre-state, outcome) tuples.",
            "samples": samples,
            "exhaustive": False,
            "distribution": {"by_kind": {k: dict(sorted(v.items(), key=lambda kv: -kv[1])[:40]) for k, v in dist.items()},
                             "histories": len(hists), "kills": kills, "membership": stats,
                             "sweep_cases": nsweep, "sweep_kill_sites": sweep_sites, "segeq": len(seg)},
            "disagreements": dis,
        }
    finally:
        impl.close()
        shutil.rmtree(tmp, ignore_errors=True)


# ------------------------------------------------------------------------------------------------
# oracle: scripted sessions against a conforming simulated counterparty (implementation only)
# ------------------------------------------------------------------------------------------------
def fields(m):
    d = {}
    for t, v in m[1]:
        d.setdefault(t, v)
    return d


def d13_shape(old: S.AbsConn, new: S.AbsConn) -> bool:
    """the finding's description, read off the journal the old object left: the inbound row stored under the
    stored inbound counter is a SequenceReset whose NewSeqNo is not its MsgSeqNum + 1, the old object's live
    counter was that NewSeqNo (>= 2) and the new object expects MsgSeqNum + 1"""
    row = dict(old.in_rows).get(old.stored_in)
    if row is None or row[0] != "4":
        return False
    f = fields(row)
    try:
        seq, new_no = int(f[34]), int(f[36])
    except (KeyError, ValueError):
        return False
    # (`_finalize_message` journals a SequenceReset only when NewSeqNo - 1 > 0)
    return seq == old.stored_in and new_no != seq + 1 and new_no > 1 and old.next_in == new_no and new.next_in == seq + 1


class Session:
    """one endpoint (real object, file journal) + a conforming counterparty simulated here.

    The counterparty numbers its frames consecutively, remembers what it sent, answers every ResendRequest
    completely (application messages with PossDupFlag=Y, everything else by one GapFill per run of numbers),
    answers TestRequests, and asks for a resend when the endpoint's numbers jump."""

    def __init__(self, impl, role, rng, hb=30, config=True, allow_memory=True):
        self.impl, self.role, self.rng = impl, role, rng
        a = S.AbsConn(state=1, role=role, sender="INIT" if role == 1 else "ACPT",
                      target="ACPT" if role == 1 else "INIT", hb=hb)
        # configuration dimensions, all drawn from the scenario's own generator (replayable from its seed):
        # other sessions in the journal, their rows before/after ours, in-memory journal, restart mode,
        # counterparty frames through the library's own reader task (bytes) or handed to _process_message
        self.others, self.others_first = other_sessions(rng, a, force=rng.random() < 0.5) if config else ([], False)
        self.memory = config and allow_memory and rng.random() < 0.15
        self.mode = "object" if self.memory else (rng.choice(["file", "file", "object"]) if config else "file")
        self.via_bytes = config and rng.random() < 0.4
        impl.new_file(others=[dict(o) for o in self.others], others_first=self.others_first, memory=self.memory)
        self.others_before = impl.others_snapshot()
        impl.load(a)
        del impl.wire[:]
        self.a = a
        self.now = T0
        self.p_out = 1            # counterparty's next outbound number
        self.p_sent = {}          # number -> (mtype, body) the counterparty sent (for resends)
        self.p_exp = 1            # counterparty's expected number from the endpoint
        self.p_got = []           # application ids the counterparty accepted from the endpoint, in order
        self.p_asked = False      # counterparty has an unanswered ResendRequest out
        self.handed = set()       # counterparty numbers handed to the endpoint in a COMPLETED event
        self.delivered = []       # (incarnation, ClOrdID) for every on_message
        self.sent_ids = []        # ClOrdIDs of counterparty application messages
        self.ep_ids = []          # ClOrdIDs the endpoint application sent (send_msg returned or frame journaled)
        self.d15 = set()          # ids whose processing was killed after the callback, before the journal write
        self.last_in = None       # last inbound frame whose processing COMPLETED: (mtype, seq, newseq)
        self.failures = []
        self.trace = []           # replayable op list
        self.nid = 0
        self.d13_at_restart = False
        self.killed_at = None
        self.faulted = False
        self.mute_testreq = False  # the counterparty does not answer the endpoint's TestRequest by itself

    # ---- helpers -------------------------------------------------------------------------------
    def fail(self, sig, what, expected, observed):
        self.failures.append({"signature": sig, "what": what, "expected": expected, "observed": observed})

    def tick_clock(self):
        self.now += 250

    def _after(self, eff, killed, completed_seq=None):
        """bookkeeping after an event: deliveries, endpoint writes, counterparty reactions (queued)"""
        inc = self.impl.incarnation
        replies = []
        for e in eff:
            if e.startswith("D="):
                f = fields(S.parse_msg_tok(e[2:]))
                self.delivered.append((inc, f.get(11)))
            elif e.startswith("W="):
                replies += self._peer_receives(S.parse_msg_tok(e[2:]))
        if not killed:
            self.a = S.parse_conn_tokens(self.impl.dump())
        return replies

    def _peer_receives(self, m):
        """the counterparty's inbound logic for one endpoint frame; returns frames it wants to send"""
        f = fields(m)
        seq = int(f[34])
        pd = f.get(43) == "Y"
        mt = m[0]
        out = []
        if mt == "4":
            if f.get(123) == "Y":
                if seq == self.p_exp:
                    self.p_exp = int(f[36])
                    self.p_asked = False
            else:
                self.p_exp = int(f[36])
            return out
        if seq > self.p_exp:
            if not self.p_asked:
                self.p_asked = True
                out.append(("2", [(7, str(self.p_exp)), (16, "0")]))
        elif seq == self.p_exp:
            self.p_exp += 1
            self.p_asked = False
            if mt == "D":
                self.p_got.append(f.get(11))
        else:
            if not pd and mt not in ("2",):
                self.fail("C09-outbound-number-reused", "a frame without PossDupFlag carries a number the counterparty "
                          "already consumed", f"MsgSeqNum >= {self.p_exp}", f"35={mt} 34={seq}")
        if mt == "2":  # a ResendRequest is served whatever its own number is (FIX session rules)
            out.append(("RESEND", int(f[7])))
        if mt == "1" and not self.mute_testreq:
            out.append(("0", [(112, f.get(112, "0"))]))
        return out

    def _inbound(self, mtype, body, seq, pd=False):
        return S.defective(self.a, "none", mtype, body, seq, pd, self.now)

    def peer_send(self, mtype, body, plan=None, lose=False, record=True):
        """the counterparty sends a NEW frame under its next number (lose = it never arrives)"""
        seq = self.p_out
        self.p_out += 1
        if record:
            self.p_sent[seq] = (mtype, list(body))
        if mtype == "4" and dict(body).get(123) != "Y":
            self.p_out = max(self.p_out, int(dict(body)[36]))
        if lose:
            self.trace.append(["lost", mtype, seq])
            return [], False
        return self.deliver_frame(mtype, body, seq, False, plan)

    def deliver_frame(self, mtype, body, seq, pd, plan=None):
        self.tick_clock()
        m = self._inbound(mtype, body, seq, pd)
        ev = ("recv", self.now, m)
        self.trace.append(["recv", mtype, seq, pd, plan, [list(x) for x in body]])
        if self.via_bytes and plan is None and self.a.sock:
            eff, killed = self.impl.feed_bytes([S.fields_to_bytes(m[1])], self.now), False
        else:
            eff, killed = self.impl.run_event("all", ev, plan)
        if killed:
            lab = self.impl.kill_label
            if any(e.startswith("D=") for e in eff) and mtype == "D":
                self.d15.add(dict(body).get(11))
            self.killed_at = lab
        else:
            self.handed.add(seq)
            nw = dict(body).get(36)
            self.last_in = (mtype, seq, int(nw) if nw is not None else None)
        replies = self._after(eff, killed)
        return self._react(replies, eff, killed)

    def _react(self, replies, eff, killed):
        """the counterparty's queued reactions (only while the endpoint is alive)"""
        if killed:
            return eff, True
        for r in replies:
            if r[0] == "RESEND":
                self.answer_resend(r[1])
            else:
                self.peer_send(r[0], r[1], record=r[0] != "2")
        return eff, False

    def answer_resend(self, begin):
        """complete answer to ResendRequest(begin, 0)"""
        n = begin
        while n < self.p_out:
            ent = self.p_sent.get(n)
            if ent and ent[0] == "D":
                self.deliver_frame("D", ent[1], n, True)
                n += 1
            else:
                k = n
                while k < self.p_out and not (self.p_sent.get(k) and self.p_sent[k][0] == "D"):
                    k += 1
                self.deliver_frame("4", [(123, "Y"), (36, str(k))], n, True)
                n = k
            if self.a.state <= 3:
                return

    def ep_send(self, mtype, tags, plan=None):
        self.tick_clock()
        ev = ("send", self.now, (mtype, tags))
        self.trace.append(["send", mtype, [list(x) for x in tags], plan])
        eff, killed = self.impl.run_event("all", ev, plan)
        if killed:
            self.killed_at = self.impl.kill_label
        replies = self._after(eff, killed)
        return self._react(replies, eff, killed)

    def other(self, ev):
        self.trace.append(["other", list(ev)])
        eff, killed = self.impl.run_event("all", ev)
        return self._react(self._after(eff, killed), eff, killed)

    # ---- session life cycle ----------------------------------------------------------------------
    def logon(self):
        """connect + Logon exchange; returns the endpoint's effects while processing the counterparty's Logon"""
        self.other(("conn", "init" if self.role == 1 else "acc"))
        hb = [(98, "0"), (108, str(self.a.hb))]
        if self.role == 1:
            self.ep_send("A", hb)
        eff, _ = self.peer_send("A", hb)
        return eff

    def app_in(self, plan=None, lose=False):
        self.nid += 1
        cid = f"P{self.nid}"
        self.sent_ids.append(cid)
        return self.peer_send("D", [(11, cid), (58, "payload")], plan, lose)

    def app_out(self, plan=None):
        self.nid += 1
        cid = f"E{self.nid}"
        eff, killed = self.ep_send("D", [(11, cid), (58, "order")], plan)
        journaled = any(fields(m).get(11) == cid for _, m in S.parse_conn_tokens(self.impl.dump()).out_rows) \
            if not killed else None
        self.ep_ids.append(cid)
        return eff, killed, cid

    def restart(self, after_kill=False):
        """discard + rebuild; checks the restored counters (sentence 1)"""
        old = self.a
        mode = "file" if (after_kill and not self.memory) else self.mode
        self.trace.append(["restart", after_kill, mode])
        new = S.parse_conn_tokens(self.impl.restart(self.role, mode))
        if not after_kill:
            if new.next_out != old.next_out:
                self.fail("C09-restored-counter-differs:out", "restored outbound counter differs from the old object's "
                          "at a quiescent point", old.next_out, new.next_out)
            if new.next_in != old.next_in:
                if d13_shape(old, new):
                    self.fail(SIG_D13, "restored inbound counter = MsgSeqNum+1 of the last SequenceReset, live counter "
                              "was its NewSeqNo", old.next_in, new.next_in)
                else:
                    self.fail("C09-restored-counter-differs:in", "restored inbound counter differs from the old "
                              "object's at a quiescent point", old.next_in, new.next_in)
        self.d13_at_restart = d13_shape(old, new)
        self.a = new
        self.p_asked = False
        return old, new

    def relogon_checks(self, nothing_lost):
        """reconnect + Logon after a restart; sentence 'no ResendRequest when nothing was lost'"""
        eff = self.logon()
        asked = [S.parse_msg_tok(e[2:]) for e in eff if e.startswith("W=2") or (e.startswith("W=") and S.parse_msg_tok(e[2:])[0] == "2")]
        low = [1 for e in eff if e.startswith("W=") and S.parse_msg_tok(e[2:])[0] == "5"]
        if nothing_lost and (asked or low):
            if self.d13_at_restart:
                self.fail(SIG_D13, "ResendRequest / Logout after restart + Logon although the endpoint had received "
                          "everything (the stored inbound counter was the SequenceReset's own MsgSeqNum)",
                          "no ResendRequest", [fields(m).get(7) for m in asked] or "Logout")
            else:
                self.fail("C09-resendrequest-after-restart-nothing-lost", "ResendRequest / Logout after restart + Logon "
                          "although nothing was lost", "no ResendRequest", [fields(m).get(7) for m in asked] or "Logout")
        return eff

    def settle(self):
        """bring the session up and let every outstanding resend complete"""
        for _ in range(4):
            if self.a.state <= 3:
                self.logon()
            if self.a.state > 3:
                self.peer_send("0", [])
            if self.a.state == 17 and self.a.next_in == self.p_out and not self.p_asked:
                break

    def final_checks(self):
        """no loss / duplication of application messages, no number reuse on the wire"""
        self.settle()
        if self.impl.others_snapshot() != self.others_before:
            self.fail("C09-other-session-modified", "a session of the same journal that the endpoint does not own was "
                      "modified (counters or rows)", "untouched", "changed")
        got = [cid for _, cid in self.delivered]
        for cid in self.sent_ids:
            n = got.count(cid)
            if n == 0:
                self.fail("C09-app-message-lost", "application message of the counterparty never delivered after recovery",
                          f"{cid} delivered once", "never")
            elif n > 1:
                if cid in self.d15:
                    self.fail(SIG_D15, "application message delivered again after a kill between on_message and the "
                              "inbound journal write", f"{cid} delivered once", f"{n} times")
                else:
                    self.fail("C09-app-message-duplicated", "application message delivered more than once",
                              f"{cid} delivered once", f"{n} times")
        seen = {}
        top = 0
        for inc, raw in self.impl.wire:
            f = dict()
            for t, v in S.bytes_to_fields(raw):
                f.setdefault(t, v)
            if f.get(35) == "4" or f.get(43) == "Y":
                continue
            n = int(f[34])
            body = tuple((t, v) for t, v in S.bytes_to_fields(raw) if t not in (8, 9, 10, 34, 52))
            if n <= top and seen.get(n) != body:
                self.fail("C09-outbound-number-reused", "a new frame went to the transport under a number already used "
                          "for a different message", f"MsgSeqNum > {top}", f"34={n} 35={f.get(35)} (incarnation {inc})")
            seen[n] = body
            top = max(top, n)
        for cid in self.ep_ids:
            if self.p_got.count(cid) > 1:
                self.fail("C09-endpoint-message-duplicated", "endpoint application message accepted twice by the "
                          "counterparty", f"{cid} once", self.p_got.count(cid))


# ---- scenarios ---------------------------------------------------------------------------------------

def warm(s: Session, rng, n=4):
    """logon + some traffic both ways"""
    s.logon()
    for _ in range(n):
        r = rng.random()
        if r < 0.45:
            s.app_in()
        elif r < 0.8:
            s.app_out()
        elif r < 0.9:
            s.peer_send("1", [(112, "T")])
        else:
            s.peer_send("0", [])


def restart_and_continue(s: Session, after_kill, nothing_lost):
    s.restart(after_kill)
    s.relogon_checks(nothing_lost)
    s.app_out()
    s.app_in()


def scen_quiescent(impl, rng, role, variant):
    """traffic, then an event class, then a quiescent restart, reconnect + Logon, more traffic"""
    s = Session(impl, role, rng)
    warm(s, rng, rng.randint(1, 5))
    if variant == "app":
        s.app_in()
    elif variant == "seqreset-jump":        # D13: Reset mode, NewSeqNo - MsgSeqNum > 1
        s.peer_send("4", [(36, str(s.p_out + rng.choice([2, 3, 10])))])
    elif variant == "seqreset-next":        # NewSeqNo = MsgSeqNum + 1: no lag
        s.peer_send("4", [(36, str(s.p_out + 1))])
    elif variant == "gapfill-multi":        # a lost run answered by a multi-number GapFill (last inbound = GapFill)
        s.peer_send("0", [], lose=True)
        s.peer_send("1", [(112, "X")], lose=True)
        s.peer_send("0", [], lose=True)
        s.peer_send("0", [])                # arrives: gap -> ResendRequest -> GapFill over 4 numbers
    elif variant == "gap-resend":           # lost application messages, resent with PossDup
        s.app_in(lose=True)
        s.app_in(lose=True)
        s.app_in()
    elif variant == "resend-served":        # the counterparty asks for a resend of the endpoint's messages
        s.app_out()
        s.app_out()
        s.peer_send("2", [(7, str(max(1, s.a.next_out - 3))), (16, "0")], record=False)
    elif variant == "out":
        s.app_out()
    elif variant == "hb-wrongid":           # the processed frame itself ends the session (and is counted)
        s.mute_testreq = True
        s.tick_clock()
        s.other(("testreq", s.now))
        tid = s.a.test_req_id if s.a.test_req_id is not None else 0
        s.peer_send("0", [(112, str(tid + 1))])      # in sequence, wrong TestReqID: Logout + disconnect
        s.mute_testreq = False
    elif variant == "peer-logout":          # Logout from the counterparty
        s.peer_send("5", [(58, "bye")])
    elif variant == "defect-compid":        # integrity defect: dropped with a Logout, not counted
        s.tick_clock()
        seq = s.p_out
        s.p_out += 1
        s.p_sent[seq] = ("0", [])
        m = S.defective(s.a, "sender-wrong", "0", [], seq, False, s.now)
        eff, killed = impl.run_event("all", ("recv", s.now, m))
        s.trace.append(["recv-defect", "sender-wrong", seq])
        s._react(s._after(eff, killed), eff, killed)
    elif variant == "defect-toolow":
        s.deliver_frame("0", [], max(1, s.p_out - 1), False)
    ends = variant in ("hb-wrongid", "peer-logout", "defect-compid", "defect-toolow")
    nothing_lost = s.a.next_in == s.p_out and (s.a.state == 17 or (ends and s.a.state <= 3))
    restart_and_continue(s, False, nothing_lost)
    s.final_checks()
    return s


def scen_kill_send(impl, rng, role, j):
    """kill at site j of an application send, restart, reconnect + Logon, send again"""
    s = Session(impl, role, rng, allow_memory=False)
    warm(s, rng, rng.randint(1, 4))
    pre_out = s.a.next_out
    eff, killed, cid = s.app_out(plan=j)
    if not killed:
        return s, False
    written = any(e.startswith("W=") for e in eff)
    _, new = s.restart(after_kill=True)
    if new.next_out < pre_out:
        s.fail("C09-restored-counter-below-completed:out", "restored outbound counter below what the old object had "
               "completed", f">= {pre_out}", new.next_out)
    if written and new.next_out <= pre_out:
        s.fail("C09-outbound-number-reused", "frame reached the transport but the restored counter still points at its "
               "number", f"> {pre_out}", new.next_out)
    s.relogon_checks(s.a.next_in == s.p_out)
    s.app_out()
    s.app_in()
    s.final_checks()
    return s, True


def scen_kill_recv(impl, rng, role, kind, j):
    """kill at site j of inbound processing of one frame class"""
    s = Session(impl, role, rng, allow_memory=False)
    warm(s, rng, rng.randint(1, 4))
    pre_in = s.a.next_in
    if kind == "app":
        eff, killed = s.app_in(plan=j)
    elif kind == "testreq":
        eff, killed = s.peer_send("1", [(112, "K")], plan=j)
    elif kind == "seqreset":
        eff, killed = s.peer_send("4", [(36, str(s.p_out + 3))], plan=j)
    elif kind == "resendreq":
        s.app_out()
        s.app_out()
        eff, killed = s.peer_send("2", [(7, str(max(1, s.a.next_out - 3))), (16, "0")], plan=j, record=False)
    elif kind == "gap":
        s.app_in(lose=True)
        eff, killed = s.app_in(plan=j)
    if not killed:
        return s, False
    delivered = any(e.startswith("D=") for e in eff)
    # inside _process_resend, after its first set_seq_num (rewind) was committed and before the second one
    in_rewind = kind == "resendreq" and impl.sites.count("Q+") == 1
    _, new = s.restart(after_kill=True)
    if kind == "app":
        if new.next_in > pre_in and not delivered:
            s.fail("C09-counted-but-undelivered", "inbound message counted in the journal but never handed to the "
                   "application", "delivered", "not delivered")
        if new.next_in < pre_in:
            s.fail("C09-restored-counter-below-completed:in", "restored inbound counter below what the old object had "
                   "completed", f">= {pre_in}", new.next_in)
    s.relogon_checks(False)
    s.app_in()
    s.app_out()
    s.final_checks()
    if in_rewind:
        for f in s.failures:
            if f["signature"] == "C09-outbound-number-reused":
                f["signature"] = SIG_RESEND
                f["what"] = ("killed while a ResendRequest was being serviced (between the two set_seq_num of "
                             "_process_resend): the journal keeps the rewound outbound counter and has lost the rows "
                             "above it, the new incarnation numbers new frames from there; " + f["what"])
    return s, True


END_KINDS = ("=begin", "last-1", "last", ">last", "<begin", "0")


def scen_bounded_resend(impl, rng, role, endkind, prior_full, trailing):
    """the counterparty (a foreign engine: the library itself only asks with EndSeqNo=0) sends a BOUNDED
    ResendRequest – EndSeqNo = Begin / last-1 / last / beyond last / below Begin / 0 – possibly after an earlier
    complete resend (which leaves GapFill rows / holes for the trailing session messages), with `trailing` session
    messages of the endpoint at the end of its numbering; then a restart BEFORE the next send, reconnect + Logon."""
    s = Session(impl, role, rng)
    warm(s, rng, rng.randint(1, 3))
    if s.a.state != 17:
        return s
    s.app_out()
    s.app_out()
    for i in range(trailing):                       # the endpoint's newest numbers are Heartbeat replies
        s.peer_send("1", [(112, f"T{i}")])
    if prior_full:
        s.peer_send("2", [(7, str(rng.randint(1, max(1, s.a.next_out - 2)))), (16, "0")], record=False)
    last = s.a.next_out - 1
    begin = rng.randint(2, max(2, last - 1)) if last >= 2 else 1
    end = {"=begin": begin, "last-1": max(1, last - 1), "last": last, ">last": last + rng.choice([1, 7]),
           "<begin": max(1, begin - 1), "0": 0}[endkind]
    s.trace.append(["bounded", begin, end, last])
    s.peer_send("2", [(7, str(begin)), (16, str(end))], record=False)
    nothing_lost = s.a.next_in == s.p_out and s.a.state == 17
    restart_and_continue(s, False, nothing_lost)     # no send between the resend and the restart
    s.final_checks()
    return s


FAULT_SITES = {
    # site: (what the counterparty sends, collaborator that fails)
    "M": "app",          # on_message of an in-sequence application message
    "N": "testreq",      # drain of the Heartbeat reply to a TestRequest
    "W": "testreq",      # transport write of that reply
    "S": "gap",          # on_state_change(RESENDREQ_AWAITING) while a gap is being handled
}


def scen_hook_fault(impl, rng, role, site, exc, then_restart):
    """a collaborator fails ONCE while an in-sequence frame is processed – the application hook raises an Exception
    subclass / asyncio.CancelledError / a KeyboardInterrupt-like BaseException, or the reply's write / drain raises
    (connection reset, task cancelled while suspended) – and works again afterwards.  'Completed' is read as: the
    handler ran and the callback returned OR RAISED; such a frame must be counted and journaled, so that after a
    restart (the reader task is dead after a CancelledError: the operator restarts) + reconnect + Logon with the
    counterparty continuing its numbering there is no ResendRequest and no second delivery."""
    s = Session(impl, role, rng, allow_memory=not then_restart or rng.random() < 0.5)
    warm(s, rng, rng.randint(1, 4))
    if s.a.state != 17:
        return s
    kind = FAULT_SITES[site]
    impl.arm_fault(site, 0, exc)
    if kind == "app":
        s.app_in()
    elif kind == "testreq":
        s.peer_send("1", [(112, "F1")])
    else:
        s.app_in(lose=True)
        s.app_in()
    fired = impl.fault_fired
    impl.arm_fault(None)
    s.trace.append(["fault", site, exc, fired])
    if not fired:
        return s
    s.faulted = True
    in_session = s.a.state > 3
    if kind != "gap" and in_session and s.a.next_in != s.p_out and not then_restart:
        s.fail("C09-completed-message-not-counted", "an in-sequence frame whose handler ran (callback returned or raised) "
               "is not counted by the live object", s.p_out, s.a.next_in)
    if then_restart:
        nothing_lost = kind != "gap" and in_session
        old, new = s.restart(False)
        if nothing_lost and new.next_in != s.p_out and new.next_in == old.next_in:
            s.fail("C09-completed-message-not-counted", "an in-sequence frame whose handler ran (callback returned or "
                   "raised) is neither counted nor journaled: the restored inbound counter is behind the counterparty",
                   s.p_out, new.next_in)
        s.relogon_checks(nothing_lost)
    s.app_in()
    s.app_out()
    s.final_checks()
    return s


def scen_peer_midframe(impl, rng, role, where):
    """the COUNTERPARTY is the one that dies: in the middle of writing a frame (the frame is in its journal
    already), so the surviving endpoint – acceptor through the real `_handle_accept`, initiator through the real
    `connect()` – holds a partial frame in its receive buffer when the stream ends.  The counterparty comes
    back (new transport), logs on with its next number; the session must come up and the interrupted message
    must arrive exactly once."""
    s = Session(impl, role, rng, allow_memory=True)
    s.via_bytes = True
    warm(s, rng, rng.randint(1, 4))
    if s.a.state != 17:
        return s
    s.nid += 1
    cid = f"P{s.nid}"
    s.sent_ids.append(cid)
    seq = s.p_out
    s.p_out += 1
    body = [(11, cid), (58, "payload")]
    s.p_sent[seq] = ("D", body)
    s.tick_clock()
    raw = S.fields_to_bytes(s._inbound("D", body, seq)[1])
    cut = {"head": rng.randint(1, 6), "mid": len(raw) // 2, "tail": len(raw) - rng.randint(1, 4),
           "marker": raw.index(b"\x0135=") + 1}[where]
    chunks = [raw[:cut]] if where != "mid" else [raw[: cut // 2], raw[cut // 2: cut]]
    s.trace.append(["bytes", where, cut, len(raw)])
    eff = impl.feed_bytes(chunks + [b""], s.now)          # partial frame, then the stream ends
    s._react(s._after(eff, False), eff, False)
    if s.a.state > 3:
        s.fail("C09-peer-death-not-noticed", "end of stream after a partial frame did not disconnect the endpoint",
               "disconnected", s.a.state)
    eff = s.logon()                                         # new transport, counterparty's Logon as bytes
    if not any(e.startswith("L=") for e in eff):
        s.fail("C09-logon-after-peer-restart-not-processed", "the counterparty's Logon on the new transport was not "
               "processed (a stale partial frame of the dead connection was still in the receive buffer)",
               "on_logon called", [e.split("=")[0] for e in eff])
    s.app_in()
    s.app_out()
    s.final_checks()
    return s


def run_scenarios(impl, rng, rounds, stats):
    failures = []

    def collect(s, name, params):
        stats["scenarios"] = stats.get("scenarios", 0) + 1
        stats.setdefault("by_scenario", {})
        stats["by_scenario"][name] = stats["by_scenario"].get(name, 0) + 1
        if name.startswith("fault:"):
            stats["faults_fired"] = stats.get("faults_fired", 0) + (1 if s.faulted else 0)
        cfg = stats.setdefault("config", {})
        for k in [f"others={len(s.others)}"] + ["other-session:" + o["rel"] for o in s.others] + [
                  "others-created-first" if (s.others and s.others_first) else "ours-created-first",
                  "journal=" + ("memory" if s.memory else "file"), "restart=" + s.mode,
                  "frames=" + ("bytes/reader-task" if s.via_bytes else "process_message"), f"role={s.role}"]:
            cfg[k] = cfg.get(k, 0) + 1
        for f in s.failures:
            f = dict(f)
            f["input"] = {"scenario": name, "params": params, "trace": s.trace[-40:]}
            failures.append(f)

    for _ in range(rounds):
        for role in (1, 2):
            for v in ("app", "out", "seqreset-jump", "seqreset-next", "gapfill-multi", "gap-resend", "resend-served",
                      "hb-wrongid", "peer-logout", "defect-compid", "defect-toolow"):
                seed = rng.randrange(1 << 30)
                s = scen_quiescent(impl, _rng(seed), role, v)
                collect(s, "quiescent:" + v, {"role": role, "seed": seed, "variant": v})
            for endkind in END_KINDS:
                for prior_full in (False, True):
                    seed = rng.randrange(1 << 30)
                    trailing = _rng(seed).choice([0, 1, 2, 3])
                    s = scen_bounded_resend(impl, _rng(seed), role, endkind, prior_full, trailing)
                    collect(s, f"bounded-resend:{endkind}:{'after-full' if prior_full else 'first'}",
                            {"role": role, "seed": seed, "endkind": endkind, "prior_full": prior_full, "trailing": trailing})
            for site in ("M", "N", "W", "S"):
                for exc in ("exception", "cancel", "interrupt", "reset"):
                    if site in ("M", "S") and exc == "reset":
                        continue        # a connection reset comes from the transport, not from a hook
                    for then_restart in (True, False):
                        if exc in ("cancel", "interrupt") and not then_restart:
                            continue    # the reader task is dead after these: the only continuation is a restart
                        seed = rng.randrange(1 << 30)
                        s = scen_hook_fault(impl, _rng(seed), role, site, exc, then_restart)
                        collect(s, f"fault:{site}:{exc}:{'restart' if then_restart else 'continue'}",
                                {"role": role, "seed": seed, "site": site, "exc": exc, "then_restart": then_restart})
            for where in ("head", "marker", "mid", "tail"):
                seed = rng.randrange(1 << 30)
                s = scen_peer_midframe(impl, _rng(seed), role, where)
                collect(s, "peer-midframe:" + where, {"role": role, "seed": seed, "where": where})
            for j in range(8):
                seed = rng.randrange(1 << 30)
                s, k = scen_kill_send(impl, _rng(seed), role, j)
                if k:
                    collect(s, f"kill-send:{s.killed_at}", {"role": role, "seed": seed, "site": j})
            for kind in ("app", "testreq", "seqreset", "resendreq", "gap"):
                for j in range(24):
                    seed = rng.randrange(1 << 30)
                    s, k = scen_kill_recv(impl, _rng(seed), role, kind, j)
                    if not k:
                        break
                    collect(s, f"kill-recv:{kind}:{s.killed_at}", {"role": role, "seed": seed, "kind": kind, "site": j})
    return failures


def _rng(seed):
    import random
    return random.Random(seed)


def run_one(impl, name, params):
    rng = _rng(params["seed"])
    if name.startswith("quiescent:"):
        return scen_quiescent(impl, rng, params["role"], params["variant"])
    if name.startswith("bounded-resend:"):
        return scen_bounded_resend(impl, rng, params["role"], params["endkind"], params["prior_full"], params["trailing"])
    if name.startswith("fault:"):
        return scen_hook_fault(impl, rng, params["role"], params["site"], params["exc"], params["then_restart"])
    if name.startswith("peer-midframe:"):
        return scen_peer_midframe(impl, rng, params["role"], params["where"])
    if name.startswith("kill-send:"):
        return scen_kill_send(impl, rng, params["role"], params["site"])[0]
    return scen_kill_recv(impl, rng, params["role"], params["kind"], params["site"])[0]


def history_oracle(impl, rng, n_hist, max_len, stats, failures):
    """sentences 1-2 on the session family's random histories (hostile events included): at every quiescent
    restart of a CLEAN run the restored counters equal the old ones; new frames never reuse a number."""
    for _ in range(n_hist):
        role = rng.choice([1, 1, 2])
        start = S.fresh(role, rng)
        if any(seq >= start.next_out for seq, _ in start.out_rows):
            continue
        others, first = other_sessions(rng, start)
        memory = rng.random() < 0.1
        impl.new_file(others=[dict(o) for o in others], others_first=first, memory=memory)
        others_before = impl.others_snapshot()
        impl.load(start)
        del impl.wire[:]
        cfg = {"others": others_json(others), "others_first": first, "memory": memory}
        stats["hist_multi"] = stats.get("hist_multi", 0) + (1 if others else 0)
        stats["hist_memory"] = stats.get("hist_memory", 0) + (1 if memory else 0)
        a, now, clean, script = start, T0, True, []
        top = start.next_out - 1
        for _ in range(rng.randint(max_len // 2, max_len)):
            now += rng.choice([0, 125, 250, 1000, 3000, a.hb * 1000])
            if rng.random() < 0.12:
                old = a
                mode = rng.choice(["file", "object"])
                a = S.parse_conn_tokens(impl.restart(role, mode))
                script.append(["restart", mode])
                stats["hist_restarts"] = stats.get("hist_restarts", 0) + 1
                if impl.others_snapshot() != others_before:
                    failures.append({"signature": "C09-other-session-modified", "what": "a session of the same journal that "
                                     "the endpoint does not own was modified", "expected": "untouched", "observed": "changed",
                                     "input": {"history": {"start": start.tokens(), "role": role, "script": list(script), **cfg}}})
                if clean:
                    stats["hist_clean_restarts"] = stats.get("hist_clean_restarts", 0) + 1
                    inp = {"history": {"start": start.tokens(), "role": role, "script": list(script), **cfg}}
                    if a.next_out != old.next_out:
                        failures.append({"signature": "C09-restored-counter-differs:out", "input": inp,
                                         "what": "restored outbound counter differs at a quiescent point of a run "
                                                 "without exceptions", "expected": old.next_out, "observed": a.next_out})
                    if a.next_in != old.next_in:
                        d13 = d13_shape(old, a)
                        failures.append({"signature": SIG_D13 if d13 else "C09-restored-counter-differs:in", "input": inp,
                                         "what": "restored inbound counter differs at a quiescent point of a run "
                                                 "without exceptions" + (" (last journaled inbound frame is a "
                                                 "SequenceReset with NewSeqNo != MsgSeqNum+1)" if d13 else ""),
                                         "expected": old.next_in, "observed": a.next_in})
                clean = True  # a new incarnation starts from the journal
                continue
            sr, ev, lab = S.next_event(rng, a, now)
            if ev[0] == "reset":
                continue
            if ev[0] == "send" and (ev[2][0] == "4" or dict(ev[2][1]).get(43) == "Y"):
                continue
            eff, _ = impl.run_event(sr, ev)
            script.append(["ev", sr, S.event_tokens(ev)])
            post = S.parse_conn_tokens(impl.dump())
            if any(e.startswith(("C=", "R=")) for e in eff):
                clean = False
            if clean:
                for e in eff:
                    if e.startswith("W="):
                        f = fields(S.parse_msg_tok(e[2:]))
                        if f.get(35) != "4" and f.get(43) != "Y":
                            n = int(f[34])
                            if n <= top:
                                failures.append({"signature": "C09-outbound-number-reused",
                                                 "input": {"history": {"start": start.tokens(), "role": role, "script": list(script), **cfg}},
                                                 "what": "new frame under a number already used (run without exceptions)",
                                                 "expected": f"> {top}", "observed": n})
                            top = max(top, n)
            a = post


def oracle(ctx, disagreements, broken):
    tmp = mktmp()
    impl = RImpl(tmp)
    stats = {}
    failures = []
    try:
        # disagreeing histories first: re-run them under the history oracle's sentences
        for d in disagreements[:300]:
            h = d["input"].get("history")
            if h:
                failures += replay_history_oracle(impl, h)
        rounds = ctx.n(1, 6) * (4 if broken else 1)
        failures += run_scenarios(impl, ctx.rng, rounds, stats)
        history_oracle(impl, ctx.rng, ctx.n(250, 2000) * (4 if broken else 1), ctx.n(25, 50), stats, failures)
        ctx.oracle_stats = {"failures": len(failures), **stats,
                            "sentences": ["restored counters = old counters at quiescent points", "restored counters "
                                          "never below completed work after a kill", "no new frame under a used number "
                                          "(all incarnations)", "no ResendRequest/Logout after restart+Logon when nothing "
                                          "was lost", "never counted-but-undelivered", "every application message "
                                          "delivered exactly once after recovery"]}
    finally:
        impl.close()
        shutil.rmtree(tmp, ignore_errors=True)
    # smallest first, one per signature is enough for the report; keep a bounded list
    failures.sort(key=lambda f: len(json.dumps(f.get("input"), default=str)))
    kept, per = [], {}
    for f in failures:   # bounded, but never at the expense of a signature: at most 40 per signature
        per[f["signature"]] = per.get(f["signature"], 0) + 1
        if per[f["signature"]] <= 40:
            kept.append(f)
    return kept


def replay_history_oracle(impl, hist):
    """run a recorded lock-step history (correspondence format) under the quiescent-restart sentences;
    a final restart is added when the script does not end with one"""
    out = []
    start = S.parse_conn_tokens(hist["start"])
    role = hist["role"]
    if any(seq >= start.next_out for seq, _ in start.out_rows) or any(seq >= start.next_in for seq, _ in start.in_rows):
        return out      # inconsistent store (rows above the counters): outside the quantifier
    if start.stored_out + 1 != start.next_out or start.stored_in + 1 != start.next_in:
        return out
    others = others_from_json(hist.get("others"))
    memory = hist.get("memory", False)
    impl.new_file(others=[dict(o) for o in others], others_first=hist.get("others_first", False), memory=memory)
    others_before = impl.others_snapshot()
    impl.load(start)
    a, clean = start, True
    cfg = {k: hist[k] for k in ("others", "others_first", "memory") if k in hist}
    script = list(hist["script"])
    if not script or script[-1][0] != "restart":
        script.append(["restart"])
    done = []
    for st in script:
        done.append(st)
        if st[0] == "ev":
            ev = parse_event(st[2])
            eff, _ = impl.run_event(st[1], ev)
            if any(e.startswith(("C=", "R=")) for e in eff) or ev[0] == "reset" or \
                    (ev[0] == "send" and (ev[2][0] == "4" or dict(ev[2][1]).get(43) == "Y")):
                clean = False
            a = S.parse_conn_tokens(impl.dump())
        elif st[0] == "restart":
            old = a
            a = S.parse_conn_tokens(impl.restart(role, st[1] if len(st) > 1 else "file"))
            inp = {"history": {"start": hist["start"], "role": role, "script": list(done), **cfg}}
            if impl.others_snapshot() != others_before:
                out.append({"signature": "C09-other-session-modified", "what": "a session of the same journal that the "
                            "endpoint does not own was modified", "input": inp, "expected": "untouched", "observed": "changed"})
            if clean and a.next_out != old.next_out:
                out.append({"signature": "C09-restored-counter-differs:out", "what": "restored outbound counter differs "
                            "at a quiescent point of a run without exceptions", "input": inp,
                            "expected": old.next_out, "observed": a.next_out})
            if clean and a.next_in != old.next_in:
                d13 = d13_shape(old, a)
                out.append({"signature": SIG_D13 if d13 else "C09-restored-counter-differs:in",
                            "what": "restored inbound counter differs at a quiescent point of a run without exceptions",
                            "input": inp, "expected": old.next_in, "observed": a.next_in})
            clean = True
        else:
            ev = parse_event(st[2])
            if memory:
                continue
            impl.run_event(st[1], ev, plan=st[3])
            a = S.parse_conn_tokens(impl.restart(role))
            clean = True
    return out


def replay(ctx, rp):
    tmp = mktmp()
    impl = RImpl(tmp)
    try:
        inp = rp["input"]
        if "scenario" in inp:
            s = run_one(impl, inp["scenario"], inp["params"])
            sigs = [f["signature"] for f in s.failures]
            print("replay:", inp["scenario"], inp["params"], "->", sigs)
            return rp["signature"] in sigs
        fs = replay_history_oracle(impl, inp["history"])
        print("replay: history ->", [f["signature"] for f in fs])
        return rp["signature"] in [f["signature"] for f in fs]
    finally:
        impl.close()
        shutil.rmtree(tmp, ignore_errors=True)
