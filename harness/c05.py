"""C05 – outbound messages are numbered consecutively and journaled under that number.  DESIGN.md §6 C05.

proof:  Props/C05.lean (OutInv preserved by every event / history; send_numbered; refused_send_unchanged;
        refusal_complete; encoding_refusal; new_messages_consecutive; new_messages_journaled;
        new_messages_readback)
tie:    Session model (`sess.*`) vs the REAL AsyncFIXConnection (harness/sess_common.py):
        (a) the send slice of the exhaustive single-step table – every state x role x every message type an
            application can pass to send_msg (session types, application types, own-number messages carrying
            34 / 43 / type 4, latin-1 and non-latin-1 text) x TestReqID set / unset x journal shape, plus every
            inbound class that itself sends (Logon, TestRequest, ResendRequest of all shapes, gaps, integrity
            Logouts), send_test_req, disconnect with Logout, ticks;
        (b) random histories, lock-step comparison of effects and full post-state after every event.
oracle: the implementation alone: bytes captured at the fake transport + the journal read back through the
        real Journaler API (sessions(), recover_msg(), get_all_msgs()).
"""
from __future__ import annotations

import json
import os
import random
import shutil
import tempfile
from concurrent.futures import ProcessPoolExecutor

from . import common as C
from . import sess_common as S

PROP = "C05"
PROPS_MODULES = ["AsyncFix.Props.C05"]
FINDINGS_MODULE = "AsyncFix.Findings.C05"
ASSUMPTIONS = [
    "multiplicity and configuration (several sessions in one Journaler, file vs in-memory journal, a protocol class other "
    "than FIXProtocol44, restart = a new connection object / Journaler over the same journal) lie outside the Session "
    "model (one abstract journal per connection; `Conn.create` is the constructor): they are covered by the lock-step "
    "correspondence (a restart is compared with Conn.create over the journal left behind; the real journal is shared) and "
    "by the oracle clauses C05-restart-counter / C05-other-session-touched; that journal calls leave other sessions "
    "alone is the C13 theorem journal_calls_leave_other_sessions",
    "frames are abstract field lists (the frame <-> bytes relation is C01/C02); no repeating groups in session traffic",
    "application hooks return normally and do not call back into the connection (concurrent senders are C14); "
    "should_replay is a pure function of the journal row",
    "SendingTime text is single-byte (Codec.current_datetime prints ASCII digits) - hypothesis Event.ok of the theorems; "
    "the REAL Codec.current_datetime() runs against a patched clock (asyncfix.codec.datetime) whose instants include "
    "the last millisecond of a minute / hour / day with 499 / 500 / 999 us below it, standing still and stepping "
    "backwards; the text it prints is what the model receives as Env.stamp (the date is fixed: calendar roll-overs are "
    "not exercised)",
    "application sends are NEW messages (no hand-made SequenceReset / PossDupFlag=Y): hypothesis Event.ok; the excluded "
    "class is recorded as finding C05-app-own-number",
    "sequence numbers fit SQLite's 64-bit INTEGER (hypothesis nextOut <= sys.maxsize + 1 of the journal-content theorem)",
]
MODELLED_NOT_VERIFIED = [
    "C05: send_msg / Codec.encode number selection / allocate_next_num_out / persist_msg / set_seq_num / _process_resend and "
    "all sending handlers are hand-modelled (Model/Session*.lean) and compared step by step with the real connection "
    "(effects + complete post-state incl. journal rows and stored counters)",
]

SESSION_TYPES = {"0", "1", "2", "4", "5", "A"}  # never retransmitted (noreply_msgs)
CORPUS = os.path.join(C.VERIF, "corpus", "session")
MAXSIZE = 2**63 - 1

# ------------------------------------------------------------------------------------------------
# single-step slice
# ------------------------------------------------------------------------------------------------


def send_classes():
    """every kind of message an application can hand to send_msg (label = last element)"""
    own = [
        ("4", [(34, "1"), (36, "9")], "SeqReset-34-low"),
        ("4", [(123, "Y"), (34, "NEXT"), (36, "NEXT+3")], "GapFill-34-at-counter"),
        ("4", [(34, "NEXT+5"), (36, "NEXT+9")], "SeqReset-34-above"),
        ("D", [(11, "c1"), (43, "Y"), (34, "NEXT-1"), (122, "20240101-00:00:00.000")], "App-possdup-last"),
        ("D", [(11, "c1"), (43, "Y"), (34, "NEXT")], "App-possdup-at-counter"),
        ("0", [(43, "Y"), (34, "1")], "Heartbeat-possdup"),
    ]
    more = [
        ("A", [(98, "0"), (108, "30"), (553, "usér")], "Logon-latin1"),
        ("A", [(98, "0"), (108, "30"), (553, "€")], "Logon-nonlatin1"),
        ("5", [(58, "bye")], "Logout-text"),
        ("5", [(58, "€")], "Logout-nonlatin1"),
        ("1", [], "TestRequest-noid"),
        ("8", [(37, "o1"), (17, "e1"), (150, "0"), (39, "0")], "ExecReport"),
        ("D", [(11, "c1"), (34, "77")], "App-own34-ignored"),
    ]
    return S.send_classes() + more + own


TEXTS = [("", None), ("latin1", "caf\xe9 \xfc"), ("nonlatin1", "pre \u20ac post")]
# 'odd but legal' header-ish tags an application may set on a message it hands to send_msg
ODD_TAGS = [
    ("none", []),
    ("97Y", [(97, "Y")]),
    ("97Y-stale34", [(97, "Y"), (34, "57")]),
    ("97N-34", [(97, "N"), (34, "NEXT-1")]),
    ("43N-34", [(43, "N"), (34, "NEXT+5")]),
    ("122-52", [(122, "20240101-00:00:00.000"), (52, "20200101-00:00:00")]),
    ("stale34-369", [(34, "1"), (369, "3")]),
    ("97Y-43N-122-34-52-369", [(97, "Y"), (43, "N"), (122, "20240101-00:00:00"), (34, "NEXT+2"), (52, "t"), (369, "9")]),
]
# kinds of message w.r.t. numbering: new ones and ones that carry their own number
BASE_KINDS = [
    ("App", "D", [(11, "c1")]),
    ("Custom", "U1", []),
    ("Heartbeat", "0", []),
    ("Logout", "5", []),
    ("Logon", "A", [(98, "0"), (108, "30")]),
    ("Own-possdup-last", "D", [(11, "c1"), (43, "Y"), (34, "NEXT-1")]),
    ("Own-possdup-hole", "D", [(11, "c1"), (43, "Y"), (34, "NEXT-2")]),
    ("Own-possdup-at", "D", [(11, "c1"), (43, "Y"), (34, "NEXT")]),
    ("Own-seqreset-low", "4", [(34, "1"), (36, "9")]),
    ("Own-seqreset-at", "4", [(123, "Y"), (34, "NEXT"), (36, "NEXT+3")]),
    ("Own-possdup-no34", "D", [(11, "c1"), (43, "Y")]),
]


def compose(kind, text, odd):
    """(mtype, tags, label): a base kind with optional free text (58) and odd header-ish tags; a tag the
    base kind already carries is not overridden"""
    name, mt, tags = kind
    tags = list(tags)
    have = {t for t, _ in tags}
    if text[1] is not None:
        tags.append((58, text[1]))
    for t, v in odd[1]:
        if t not in have:
            tags.append((t, v))
            have.add(t)
    return mt, tags, f"{name}/{text[0] or 'plain'}/{odd[0]}"


def send_matrix(k):
    """the (kind x text x odd tags) matrix, three odd-tag combinations per cell, cycling with k"""
    for kind in BASE_KINDS:
        for text in TEXTS:
            for j in range(2):
                yield compose(kind, text, ODD_TAGS[(k + 3 * j + len(kind[0])) % len(ODD_TAGS)])


def subst(tags, a):
    out = []
    for t, v in tags:
        if isinstance(v, str) and v.startswith("NEXT"):
            v = str(a.next_out + int(v[4:] or 0))
        out.append((t, v))
    return out


def single_step_slice(rng):
    """(AbsConn, sr, event, label) – C05's part of the exhaustive table"""
    k = rng.randrange(1000)
    sending_inbound = ["Logon", "Logon-no98", "TestRequest", "TestRequest-noid", "Resend-all", "Resend-tail",
                       "Resend-bounded", "Resend-beyond", "Resend-zero", "Resend-inverted", "Resend-garbled",
                       "Resend-no16", "Heartbeat-wrongid", "App", "Logout"]
    for st in S.ALL_STATES:
        for role in S.ALL_ROLES:
            for mt, tags, lab in send_classes():
                for tr in (None, S.T0 // 1000 - 3):
                    for shape in (("app", "ahead", "holes") if (34 in dict(tags) or mt == "4") else ("app", "ahead")):
                        k += 1
                        a = S.base_state(st, role, k)
                        a.test_req_id = tr
                        a = S.with_journal(a, shape)
                        yield (a, "all", ("send", S.T0, (mt, subst(tags, a))), f"send:{lab}")
            for mt, tags, lab in send_matrix(k):
                k += 1
                a = S.base_state(st, role, k)
                a.test_req_id = None if k % 2 else S.T0 // 1000 - 3
                a = S.with_journal(a, ("app", "holes", "empty")[k % 3])
                yield (a, "all", ("send", S.T0, (mt, subst(tags, a))), f"send:{lab}")
            proto = S.base_state(st, role, 0)
            for lab in sending_inbound:
                for slab in ("at", "plus1", "far", "below"):
                    for j in range(2):
                        k += 1
                        shape = ("app", "mixed", "resent", "sess", "holes", "empty")[k % 6]
                        a = S.with_journal(S.base_state(st, role, k), shape)
                        cls = {l: (m, b) for l, m, b in S.inbound_classes(a)}
                        mt, body = cls[lab]
                        seq = dict(S.seq_classes(a))[slab]
                        sr = ["all", "none", f"d{max(1, a.next_out - 2)}"][k % 3]
                        m = S.defective(a, "none", mt, body, seq, False, S.T0)
                        yield (a, sr, ("recv", S.T0, m), f"recv:{lab}:{slab}")
            for d in ("begin-wrong", "sender-wrong", "swapped"):
                k += 1
                a = S.with_journal(S.base_state(st, role, k), "app")
                m = S.defective(a, d, "D", [(58, "x")], a.next_in, False, S.T0)
                yield (a, "all", ("recv", S.T0, m), f"recv-defect:{d}")
            for j in range(10):
                k += 1
                a = S.with_journal(S.base_state(st, role, k), S.JOURNAL_SHAPES[k % len(S.JOURNAL_SHAPES)])
                yield (a, "all", ("testreq", S.T0 + 250), "testreq")
                yield (a, "all", ("disc", S.T0, [1, 2, 3, 5][j % 4], [None, "", "bye", "grüß", "€"][j % 5]), "disc")
                b = a.copy()
                b.last_time = S.T0
                yield (b, "all", ("tick", S.T0 + (a.hb - 1) * 1000 + 125), "tick")
                yield (a, "all", ("reset",), "reset")


# ------------------------------------------------------------------------------------------------
# history generator (own: weighted towards sends and traffic that sends)
# ------------------------------------------------------------------------------------------------

COUNTERS = [(1, 1), (1, 1), (3, 6), (9, 4), (40, 41), (2**32 + 1, 2**32 + 7), (5, 2**40), (2**33, 3)]

# ------------------------------------------------------------------------------------------------
# configuration / multiplicity: what the journal is (memory | file), which protocol class the connection
# gets (FIXProtocol44 | a bare FIXProtocolBase subclass), whether the journal is SHARED with other sessions
# whose rows and counters lie below, around and far ahead of ours, and whether the history contains
# restarts (a new connection object - for a file journal also a new Journaler - over the same journal)
# ------------------------------------------------------------------------------------------------
CONFIGS = [
    {"journal": "memory", "proto": "fix44", "others": False, "restart": False},   # the classic set-up
    {"journal": "memory", "proto": "fix44", "others": True, "restart": True},
    {"journal": "file", "proto": "fix44", "others": True, "restart": True},
    {"journal": "memory", "proto": "custom", "others": True, "restart": True},
    {"journal": "file", "proto": "custom", "others": False, "restart": True},
]
CLASSIC = CONFIGS[0]
# application hooks that send: on_state_change for every state the library announces, on_logon, on_message
HOOKS = ([{"state": st} for st in (17, 10, 12, 7, 8, 11, 3, 2, 17, 10)]
         + [{"logon": True}, {"message": True}, {"state": 17, "logon": True, "message": True}])
_PROTO = {}


def proto_of(cfg):
    from asyncfix.protocol import FIXProtocol44, FIXProtocolBase

    if cfg["proto"] == "fix44":
        return FIXProtocol44()
    if "custom" not in _PROTO:
        # what a user-defined protocol looks like: only the BeginString is set, everything else inherited
        _PROTO["custom"] = type("CustomProtocol", (FIXProtocolBase,), {"beginstring": "FIX.4.4"})
    return _PROTO["custom"]()


class Rig:
    """an Impl configured per `cfg` (own temp dir for a file journal)"""

    def __init__(self, cfg):
        from asyncfix.journaler import Journaler

        self.cfg = cfg
        self.impl = S.Impl()
        self.dir = None
        self.other_keys = None
        if cfg["journal"] == "file":
            self.dir = tempfile.mkdtemp(prefix="c05-", dir="/dev/shm" if os.path.isdir("/dev/shm") else None)
            self.path = os.path.join(self.dir, "journal.db")
            self.impl.journal = Journaler(self.path)
        if cfg["journal"] == "file" or cfg["proto"] != "fix44":
            self._new_conn("S", "T", 30, None)
            self.impl.key = self.impl.conn._session.key

    def _new_conn(self, sender, target, hb, role):
        impl = self.impl
        conn = impl.Conn(proto_of(self.cfg), sender, target, impl.journal, "h", 1, hb, logger=impl.log)
        if role is not None:
            conn._connection_role = role   # the client / server subclass constructors fix the role
        impl.conn = conn
        self.install_hooks()
        return conn

    # ---- application hooks that SEND (implementation + oracle only: the model's hooks return without
    #      calling back).  spec = {"state": <ConnectionState value> | None, "logon": bool, "message": bool}:
    #      when that state is announced / on_logon / on_message runs, the hook sends ONE new application
    #      message through the public send_msg() and returns normally whatever send_msg does; what
    #      send_msg did is recorded in self.hook_log as (where, "ok" | exception kind).
    hook = None
    hook_log = ()

    def set_hook(self, spec):
        self.hook = spec
        self.hook_log = []
        self.install_hooks()

    def install_hooks(self):
        import types

        impl, conn, spec, log = self.impl, self.impl.conn, self.hook, self.hook_log
        for name in ("on_state_change", "on_logon", "on_message"):
            conn.__dict__.pop(name, None)
        if not spec:
            return
        eff = impl.eff

        async def hook_send(where):
            m = impl.FIXMessage("D")
            m.set(11, "from-hook")
            m.set(58, where)
            try:
                await conn.send_msg(m)
                log.append((where, "ok"))
            except Exception as e:  # a well-behaved hook returns normally
                log.append((where, S.exc_kind(e)))

        async def on_state_change(self_, s):
            eff.append(("S", int(s)))
            if spec.get("state") is not None and int(s) == spec["state"]:
                await hook_send("on_state_change(%d)" % int(s))

        async def on_logon(self_, healthy):
            eff.append(("L", bool(healthy)))
            if spec.get("logon"):
                await hook_send("on_logon")

        async def on_message(self_, msg):
            eff.append(("D", msg))
            if spec.get("message"):
                await hook_send("on_message")

        conn.on_state_change = types.MethodType(on_state_change, conn)
        conn.on_logon = types.MethodType(on_logon, conn)
        conn.on_message = types.MethodType(on_message, conn)

    def others(self):
        """two more sessions in the same journal: a foreign CompID pair, and one sharing our SenderCompID"""
        if self.other_keys is None:
            j = self.impl.journal
            self.other_keys = [j.create_or_load("T2", "S2").key, j.create_or_load("OTHER", "SHARED").key]
            assert self.impl.key not in self.other_keys
        return self.other_keys

    def activate(self):
        """every S.Impl() patches the clock of asyncfix.connection / Codec globally to ITS OWN now_ms; with
        several rigs alive the patch must point to the one in use"""
        import types

        impl = self.impl
        impl.cm.time = C.clock_patch(impl.cm, lambda: impl.now_ms / 1000)
        impl.codec_mod.datetime = impl.fake_datetime

    def load(self, start):
        """impl.load + (shared journal) rows and counters of the other sessions: below, at, just above and
        far ahead of our counter"""
        impl = self.impl
        self.activate()
        impl.load(start)
        if self.cfg["others"]:
            k2, k3 = self.others()
            no = start.next_out
            cur = impl.journal.cursor
            rows = []
            for n in sorted({max(1, no - 2), no, no + 1, no + 40, 2**35 + 11}):
                rows.append((n, k2, 1, S.fields_to_bytes(S.row("S2", "T2", "D", ((11, f"f{n}"),), n)[1][1])))
            for n in sorted({1, no + 3}):
                rows.append((n, k3, 1, S.fields_to_bytes(S.row("SHARED", "OTHER", "D", ((11, f"g{n}"),), n)[1][1])))
                rows.append((n, k3, 0, S.fields_to_bytes(S.row("OTHER", "SHARED", "D", ((11, f"h{n}"),), n)[1][1])))
            cur.executemany("INSERT INTO message VALUES(?, ?, ?, ?)", rows)
            cur.execute("UPDATE session SET outboundSeqNo=?, inboundSeqNo=? WHERE sessionId=?", (2**35 + 11, 5, k2))
            cur.execute("UPDATE session SET outboundSeqNo=?, inboundSeqNo=? WHERE sessionId=?", (no + 3, no + 3, k3))
            impl.journal.conn.commit()

    def snapshot_others(self):
        if not self.cfg["others"]:
            return None
        cur = self.impl.journal.cursor
        cur.execute("SELECT session, direction, seqNo, msg FROM message WHERE session != ? "
                    "ORDER BY session, direction, seqNo", (self.impl.key,))
        msgs = [tuple(r) for r in cur]
        cur.execute("SELECT sessionId, targetCompId, senderCompId, outboundSeqNo, inboundSeqNo FROM session "
                    "WHERE sessionId != ? ORDER BY sessionId", (self.impl.key,))
        return msgs, [tuple(r) for r in cur]

    def restart(self):
        """what a process restart does to the session: the connection object is dropped, a new one is built
        over the same journal (file journal: a new Journaler on the same file), i.e. create_or_load again"""
        from asyncfix.journaler import Journaler

        impl = self.impl
        old = impl.conn
        sess = old._session
        if self.cfg["journal"] == "file":
            impl.journal.conn.commit()
            impl.journal = Journaler(self.path)
        conn = self._new_conn(sess.sender_comp_id, sess.target_comp_id, old._heartbeat_period, old._connection_role)
        assert conn._session.key == impl.key, (conn._session.key, impl.key)

    def apply(self, sr, ev):
        del self.impl.eff[:]
        if ev[0] == "restart":
            self.restart()
        else:
            self.impl.apply(sr, ev)

    def close(self):
        self.impl.close()
        if self.dir:
            shutil.rmtree(self.dir, ignore_errors=True)


def created_tokens(before: str) -> str:
    """the connection `Conn.create` gives over the journal of `before` (model: SessionTypes.lean `Conn.create`):
    counters = stored + 1, DISCONNECTED_NOCONN_TODAY, no transport, watchdog fields cleared; role and
    heartbeat period are constructor arguments"""
    a = S.parse_conn_tokens(before)
    b = S.AbsConn(state=1, role=a.role, was_active=False, sender=a.sender, target=a.target,
                  next_in=a.stored_in + 1, next_out=a.stored_out + 1, max_resend=0, test_req_id=None, last_time=0,
                  hb=a.hb, sock=False, stored_out=a.stored_out, stored_in=a.stored_in,
                  out_rows=a.out_rows, in_rows=a.in_rows)
    return b.tokens()


def fresh(rng):
    role = rng.choice([1, 1, 2])
    a = S.AbsConn(state=1, role=role, sender="INIT" if role != 2 else "ACPT", target="ACPT" if role != 2 else "INIT")
    a.hb = rng.choice([1, 2, 5, 30])
    if rng.random() < 0.25:
        a.next_in, a.next_out = rng.randrange(1, 2**34), rng.randrange(1, 2**34)
    else:
        a.next_in, a.next_out = rng.choice(COUNTERS)
    return S.with_journal(a, rng.choice(["empty", "empty", "app", "mixed", "holes", "sess", "resent"]))


def app_send(rng, a, own):
    """an application send: half of the time drawn from the (kind x text x odd tags) dimensions"""
    r = rng.random()
    if r < 0.5:
        kinds = BASE_KINDS if own else BASE_KINDS[:5]
        kind = rng.choice(kinds[:2] * 3 + kinds)
        text = rng.choice([TEXTS[0], TEXTS[0], TEXTS[1], TEXTS[2]])
        odd = rng.choice([ODD_TAGS[0]] * 3 + ODD_TAGS)
        mt, tags, lab = compose(kind, text, odd)
    elif own and r < 0.6:
        mt, tags, lab = rng.choice(send_classes()[-6:])
    elif r < 0.8:
        mt, tags, lab = rng.choice([("D", [(11, "c%d" % rng.randrange(99)), (58, "text")], "App"),
                                    ("8", [(37, "o1"), (39, "0")], "ExecReport"),
                                    ("U1", [(58, "custom")], "App-custom"),
                                    ("D", [(58, "caf\xe9")], "App-latin1"),
                                    ("D", [(58, "\u20ac uro")], "App-nonlatin1")])
    else:
        cls = [c for c in send_classes()[:-6] if c[2] not in ("SeqReset-34", "SeqReset-34garbled", "App-possdup-34")]
        mt, tags, lab = rng.choice(cls)
    return ("send", None, (mt, subst(tags, a))), "send:" + lab


def gen_event(rng, a, now, own=True, d9=True, restart=False):
    """one event for abstract state `a`; returns (sr, event, label)"""
    sr = rng.choice(["all", "all", "all", "none", f"d{max(1, a.next_out - 2)}", f"d{max(1, a.next_out - 1)}"])
    ni, no = a.next_in, a.next_out
    if restart and rng.random() < (0.12 if a.state <= 3 else 0.04):
        return (sr, ("restart",), "restart")
    r = rng.random()

    def rx(lab, mt, body, seq="auto", pd=False, defect="none"):
        return (sr, ("recv", now, S.defective(a, defect, mt, body, ni if seq == "auto" else seq, pd, now)), "recv:" + lab)

    def snd():
        ev, lab = app_send(rng, a, own)
        return (sr, ("send", now, ev[2]), lab)

    if a.state <= 3:
        if r < 0.55:
            return (sr, ("conn", "acc" if a.role == 2 else rng.choice(["init", "init", "init", "fail"])), "conn")
        if r < 0.75:
            return snd()
        if r < 0.82:
            return rx("App", "D", [(58, "late")])
        if r < 0.9:
            return (sr, ("tick", now), "tick")
        if r < 0.95:
            return (sr, ("testreq", now), "testreq")
        return (sr, ("eof", now), "eof")
    if a.state == 6 and a.role != 2:
        if r < 0.6:
            return (sr, ("send", now, ("A", [(98, "0"), (108, str(a.hb))])), "send:Logon")
        if r < 0.7:
            return (sr, ("send", now, ("A", [(98, "0"), (108, "30"), (553, "€")])), "send:Logon-nonlatin1")
        if r < 0.85:
            return snd()
    if a.state in (6, 7) and r < 0.8:
        seq = ni if rng.random() < 0.7 else ni + rng.choice([1, 3])
        return rx("Logon", "A", [(98, "0"), (108, str(a.hb))], seq)
    k = rng.random()
    if r < 0.32:
        return snd()
    if r < 0.37:
        return (sr, ("testreq", now), "testreq")
    if r < 0.50:  # ResendRequest of all shapes
        shapes = [("all", 1, 0), ("tail", max(1, no - 2), 0), ("mid", max(1, no - 4), 0), ("last", max(1, no - 1), 0),
                  ("beyond", no, 0), ("beyond2", no + 3, 0), ("zero", 0, 0), ("neg", -2, 0), ("garbled", "x", 0)]
        if d9:
            shapes += [("bounded", max(1, no - 3), max(1, no - 2)), ("bounded1", max(1, no - 2), max(1, no - 2)),
                       ("inverted", max(2, no - 1), 1), ("bounded-exact", max(1, no - 2), max(1, no - 1)),
                       ("bounded-far", max(1, no - 2), no + 5)]
        lab, b, e = rng.choice(shapes)
        return rx("Resend-" + lab, "2", [(7, str(b)), (16, str(e))], ni if k < 0.8 else ni + 1)
    if r < 0.56:
        return rx("TestRequest", "1", rng.choice([[(112, "T1")], []]), ni if k < 0.8 else ni + 2)
    if r < 0.64:  # gaps: the library sends a ResendRequest
        return rx("App-gap", "D", [(11, "gap")], ni + rng.choice([1, 2, 7]))
    if r < 0.72:
        return rx("App", "D", [(11, f"c{ni}"), (58, "payload")])
    if r < 0.77:
        tid = a.test_req_id if a.test_req_id is not None else 5
        return rx("Heartbeat", "0", rng.choice([[], [(112, str(tid))], [(112, str(tid + 1))]]))
    if r < 0.81:
        gf = rng.random() < 0.6
        return rx("GapFill" if gf else "Reset", "4", ([(123, "Y")] if gf else []) + [(36, str(ni + rng.choice([0, 1, 3])))])
    if r < 0.89:
        return (sr, ("tick", now), "tick")
    if r < 0.915:
        return rx("Logout", "5", rng.choice([[], [(58, "bye")]]))
    if r < 0.935:
        return (sr, ("eof", now), "eof")
    if r < 0.955:
        return (sr, ("disc", now, rng.choice([1, 2, 3]), rng.choice([None, "", "bye", "€"])), "disc")
    if r < 0.965:
        return (sr, ("reset",), "reset")
    if r < 0.985:
        d = rng.choice(S.DEFECTS)
        return rx("defect-" + d, rng.choice(["D", "0", "A"]), [(58, "x")], rng.choice([ni, ni - 1, None]), defect=d)
    return rx("Logon-again", "A", [(98, "0"), (108, "30")])


def gen_history(rng, rig, max_len, own=True, d9=True, stats=None):
    """generate one history while running it on the implementation (the generator looks at the
    implementation's abstract state only to choose plausible next events)"""
    impl = rig.impl
    start = fresh(rng)
    rig.load(start)
    now, a, steps = S.T0, start, []
    for _ in range(rng.randint(max(1, max_len // 2), max_len)):
        # clock behaviours: standing still, small and large steps, beyond every timeout, a day ahead, BACKWARDS
        now += rng.choice([0, 0, 125, 250, 1000, 1000, 3000, a.hb * 1000, a.hb * 2000 + 125, 86_400_000, -250, -5000])
        now = max(now, 1_000_000)
        sr, ev, lab = gen_event(rng, a, now, own, d9, rig.cfg["restart"])
        before = impl.dump() if ev[0] == "restart" else None
        rig.apply(sr, ev)
        eff, post = impl.effects(), impl.dump()
        if stats is not None:
            if ev[0] == "restart":
                stats.setdefault("event", {})
                stats["event"]["restart"] = stats["event"].get("restart", 0) + 1
            else:
                S.note_stats(stats, a, ev, eff, lab)
        steps.append((sr, ev, lab, eff, post, before))
        a = S.parse_conn_tokens(post)
    return start, steps


def ev_json(ev):
    return json.loads(json.dumps(ev))


def ev_tuple(e):
    """inverse of ev_json"""
    if e[0] in ("recv", "send"):
        return (e[0], e[1], (e[2][0], [(int(t), v) for t, v in e[2][1]]))
    return tuple(e)


def compare_history_list(hist, drv=None):
    """hist: [(cfg, start, [(sr, ev, lab, eff, post, before)])]; lock-step comparison with the model.
    A `restart` step is compared with `Conn.create` over the journal as it was before the restart
    (`created_tokens`), and the model continues from that connection."""
    drv = drv or C.Driver()
    lines, index = [], []
    for hi, (cfg, start, steps) in enumerate(hist):
        lines.append("sess.load " + start.tokens())
        index.append(None)
        for si, st in enumerate(steps):
            if st[1][0] == "restart":
                lines.append("sess.load " + created_tokens(st[5]))
            else:
                lines.append(f"sess.ev {st[0]} {S.event_tokens(st[1])}")
            index.append((hi, si))
    model = drv.batch(lines) if lines else []
    dis, bad, events, seen = [], set(), 0, set()
    for ml, ix in zip(model, index):
        if ix is None:
            assert ml == "ok", ml
            continue
        hi, si = ix
        events += 1
        if hi in bad:
            continue
        sr, ev, lab, eff, post, before = hist[hi][2][si]
        if ev[0] == "restart":
            assert ml == "ok", ml
            ml, il = "- # " + created_tokens(before), S.reply(eff, post)
        else:
            il = S.reply(eff, post)
        if eff:
            seen.add((post.split(" ")[0], lab, tuple(e.split("=")[0] for e in eff)))
        if il != ml:
            bad.add(hi)
            cfg, start, steps = hist[hi]
            dis.append({"input": {"cfg": cfg, "start": start.tokens(),
                                  "events": [[s[0], ev_json(s[1])] for s in steps[: si + 1]],
                                  "label": lab, "step": si}, "model": ml, "impl": il})
    return events, dis, seen


def _worker(args):
    seed, n_hist, max_len, cfg = args
    rng = random.Random(seed)
    rig = Rig(cfg)
    stats = {}
    try:
        hist = [(cfg,) + gen_history(rng, rig, max_len, True, True, stats) for _ in range(n_hist)]
    finally:
        rig.close()
    events, dis, seen = compare_history_list(hist)
    sample = None
    if hist:
        _, st, steps = hist[0]
        sample = {"cfg": cfg, "start": st.tokens(), "events": [[s[0], ev_json(s[1])] for s in steps[:6]],
                  "post": steps[min(5, len(steps) - 1)][4]}
    return events, dis, stats, list(seen), sample


def merge_stats(into, st):
    for d, m in st.items():
        into.setdefault(d, {})
        for k, v in m.items():
            into[d][k] = into[d].get(k, 0) + v


def load_corpus():
    out = []
    if os.path.isdir(CORPUS):
        for fn in sorted(os.listdir(CORPUS)):
            if fn.startswith("c05_") and fn.endswith(".json"):
                with open(os.path.join(CORPUS, fn)) as f:
                    d = json.load(f)
                d["file"] = fn
                out.append(d)
    return out


def run_fixed(rig, start, events, stats=None):
    """run a fixed history [(sr, ev)] on the implementation"""
    impl = rig.impl
    rig.load(start)
    a, steps = start, []
    for sr, ev in events:
        before = impl.dump() if ev[0] == "restart" else None
        rig.apply(sr, ev)
        eff, post = impl.effects(), impl.dump()
        if stats is not None and ev[0] != "restart":
            S.note_stats(stats, a, ev, eff, ev[0])
        steps.append((sr, ev, ev[0], eff, post, before))
        a = S.parse_conn_tokens(post)
    return start, steps


_RIGS = {}


def rig_for(cfg):
    k = json.dumps(cfg, sort_keys=True)
    if k not in _RIGS:
        _RIGS[k] = Rig(cfg)
    return _RIGS[k]


def close_rigs():
    for r in reversed(list(_RIGS.values())):   # LIFO: each Impl restores what it found when it was created
        r.close()
    _RIGS.clear()


def correspondence(ctx):
    drv = C.Driver()
    stats, dis, seen = {}, [], set()
    # corpus first
    chist = []
    for d in load_corpus():
        cfg = d.get("cfg", CLASSIC)
        chist.append((cfg,) + run_fixed(rig_for(cfg), S.parse_conn_tokens(d["start"]),
                                        [(sr, ev_tuple(e)) for sr, e in d["events"]], stats))
    close_rigs()
    impl = S.Impl()
    ce, cd, cs = compare_history_list(chist, drv)
    dis += cd
    seen |= cs
    # (a) single-step slice
    cases = list(single_step_slice(ctx.rng))
    if ctx.tier != "thorough":
        # quick tier: every second step of the table (alternating with the seed); thorough: the whole table
        cases = [c for i, c in enumerate(cases) if i % 2 == ctx.seed % 2]
    n1, d1, res = S.compare_steps(impl, cases, drv, stats)
    dis += d1
    for case, (eff, post) in zip(cases, res):
        if eff:
            seen.add((str(case[0].state), case[3], tuple(e.split("=")[0] for e in eff)))
    # (b) histories, in worker processes
    n_hist, max_len = ctx.n(900, 20000), ctx.n(30, 80)
    workers = min(8, os.cpu_count() or 1)
    chunks = ctx.n(15, 65)
    per = (n_hist + chunks - 1) // chunks
    jobs = [(ctx.rng.getrandbits(48), per, max_len, CONFIGS[i % len(CONFIGS)]) for i in range(chunks)]
    events, sample = 0, None
    impl.close()
    with ProcessPoolExecutor(max_workers=workers) as ex:
        for ev_n, d, st, sn, smp in ex.map(_worker, jobs):
            events += ev_n
            dis += d
            merge_stats(stats, st)
            seen |= set(sn)
            sample = sample or smp
    samples = [{"input": {"conn": c[0].tokens(), "sr": c[1], "event": S.event_tokens(c[2])}, "label": c[3],
                "impl": S.reply(*r)} for c, r in list(zip(cases, res))[:: max(1, len(cases) // 4)][:4]]
    if sample:
        samples.append({"history": sample})
    return {
        "evaluations": ce + n1 + events,
        "distinct_nontrivial": len(seen),
        "rule": "one evaluation = one event applied to the model and to the real connection with effects and the complete "
                "post-state (incl. journal rows, stored counters) compared; distinct_nontrivial = number of distinct "
                "(state before, event class, sequence of effect kinds) triples among the steps that emitted at least one effect",
        "samples": samples,
        "exhaustive": False,
        "distribution": {"corpus_histories": len(chist), "single_step_cases": n1, "histories": per * chunks,
                         "history_configurations": {json.dumps(c, sort_keys=True): sum(1 for j in jobs if j[3] == c) * per
                                                    for c in CONFIGS},
                         "history_events": events, "max_history_length": max_len, **stats},
        "disagreements": dis,
    }


# ------------------------------------------------------------------------------------------------
# oracle (implementation only)
# ------------------------------------------------------------------------------------------------


def fields(raw: bytes):
    return S.bytes_to_fields(raw)


def fget(fs, tag, default=None):
    for t, v in fs:
        if t == tag:
            return v
    return default


def is_new_frame(fs):
    return fget(fs, 35) != "4" and fget(fs, 43, "N") != "Y"


def body_of(fs):
    """the tags a retransmission must carry unchanged"""
    return [(t, v) for t, v in fs if t not in (8, 9, 10, 34, 35, 43, 49, 52, 56, 122)]


def is_copy(orig, row):
    return (fget(row, 43) == "Y" and fget(row, 35) == fget(orig, 35) and fget(row, 34) == fget(orig, 34)
            and body_of(row) == body_of(orig) and fget(row, 49) == fget(orig, 49) and fget(row, 56) == fget(orig, 56))


def declines(sr, n):
    if sr == "all":
        return False
    if sr == "none":
        return True
    return n in {int(x) for x in sr[1:].split(",")}


def oracle_history(rig, start, events, hook=None):
    """run [(sr, ev)] on the real connection (configured per rig.cfg; `hook`: application hooks that send)
    and check the property clauses; returns failures"""
    fails = []
    impl = rig.impl

    def fail(sig, what, step, expected=None, observed=None):
        fails.append({"signature": sig, "what": what,
                      "input": {"cfg": rig.cfg, "hook": hook, "start": start.tokens(),
                                "events": [[s, ev_json(e)] for s, e in events[: step + 1]]},
                      "expected": expected, "observed": observed})

    try:
        return _oracle_history(rig, start, events, hook, fails, fail)
    finally:
        rig.set_hook(None)


def _oracle_history(rig, start, events, hook, fails, fail):
    impl = rig.impl
    rig.load(start)
    rig.set_hook(hook)
    MD = impl.MD
    jr, sess = impl.journal, impl.conn._session
    key = (sess.target_comp_id, sess.sender_comp_id)
    expected_next = jr.sessions()[key].next_num_out
    if expected_next != sess.next_num_out:
        return fails  # not a state a fresh / consistent connection can be in
    others0 = rig.snapshot_others()
    sent = {}          # n -> (bytes, step)
    own_seen = None    # step of an application send that chose its own number
    resends = []       # (step, begin, end0, sr) of ResendRequests received
    for i, (sr, ev) in enumerate(events):
        if ev[0] == "restart":
            # numbering continues from the stored counter of THIS session, whatever else the journal holds
            stored_before = jr.sessions()[key].next_num_out
            rig.apply(sr, ev)
            jr, sess = impl.journal, impl.conn._session
            if sess.next_num_out != stored_before:
                fail("C05-restart-counter", "a reloaded session does not continue from its own stored outbound counter",
                     i, stored_before, sess.next_num_out)
            if jr.sessions()[key].next_num_out != stored_before:
                fail("C05-restart-counter", "reloading the session changed its stored outbound counter", i,
                     stored_before, jr.sessions()[key].next_num_out)
            if rig.snapshot_others() != others0:
                fail("C05-other-session-touched", "rows / counters of another session of the shared journal changed", i)
                others0 = rig.snapshot_others()
            continue
        before = impl.dump()
        n_hook = len(rig.hook_log)
        rig.apply(sr, ev)
        for where, res in rig.hook_log[n_hook:]:
            # a NEW message the application sends from a hook is an ordinary send: accepted (numbered, journaled -
            # judged below with everything written) or refused because of the state / its text; it never meets a
            # journal row of its own number and nothing else goes wrong inside send_msg
            if res not in ("ok", "Connection", "Encoding") and own_seen is None:
                fail("C05-hook-send-failed:" + res, "a new message sent from %s died inside send_msg" % where, i,
                     "ok / FIXConnectionError", res)
        writes = [e[1] for e in impl.eff if e[0] == "W"]
        raised = [e[1] for e in impl.eff if e[0] in ("R", "C")]
        frames = [fields(b) for b in writes]
        kind = ev[0]
        if kind == "send":
            mt, tags = ev[2]
            # only a send that actually LEFT under a number of the application's choosing is the known class
            if (mt == "4" or dict(tags).get(43) == "Y") and writes:
                own_seen = i if own_seen is None else own_seen
        if kind == "recv" and ev[2][0] == "2":
            fs = dict((t, v) for t, v in ev[2][1])
            try:
                resends.append((i, int(fs.get(7)), int(fs.get(16)), sr))
            except (TypeError, ValueError):
                pass
        cls = "C05-app-own-number" if own_seen is not None else None
        # ---- a refused send (raises, nothing written) consumes no number and leaves no journal entry -
        #      whatever the message (new or numbered by the application) and whatever the reason.
        #      Never absorbed by a known signature, except the documented consequence of C05-app-own-number:
        #      a new message that meets a row an own-number send put at the counter (DuplicateSeqNoError).
        if kind == "send" and raised:
            after = impl.dump()
            b_, a_ = S.parse_conn_tokens(before), S.parse_conn_tokens(after)
            same_numbering = (b_.next_out, b_.stored_out, b_.out_rows) == (a_.next_out, a_.stored_out, a_.out_rows)
            if "Connection" in raised:
                if after != before or writes:
                    fail("C05-refused-send-changed-state",
                         "a send refused with FIXConnectionError changed the connection / wrote", i, before, after)
            elif "Attribute" in raised:
                pass  # no transport object (set-up state only): the message WAS accepted and journaled (F9 order)
            elif not writes and not same_numbering:
                if "DuplicateSeqNo" in raised:
                    fail(cls or "C05-refusal-consumed:DuplicateSeqNo",
                         "a send refused with DuplicateSeqNoError consumed a number / changed the journal", i,
                         (b_.next_out, b_.stored_out), (a_.next_out, a_.stored_out))
                elif "Encoding" in raised:
                    fail("C05-encoding-refusal-consumed",
                         "a send refused with EncodingError moved a counter / left a row", i,
                         (b_.next_out, b_.stored_out), (a_.next_out, a_.stored_out))
                else:
                    fail("C05-refusal-consumed:" + "+".join(raised),
                         "a refused send moved a counter / left a row", i,
                         (b_.next_out, b_.stored_out), (a_.next_out, a_.stored_out))
        # ---- numbering of new messages
        if kind == "reset" and not raised:
            expected_next = 1
            sent.clear()
            own_seen = None
            cls = None
        serviced = any(not is_new_frame(f) for f in frames) and kind == "recv"
        for raw, fs in zip(writes, frames):
            if kind == "send" and not is_new_frame(fs):
                continue  # the application's own-number message
            if not is_new_frame(fs):
                continue
            try:
                n = int(fget(fs, 34))
            except (TypeError, ValueError):
                fail(cls or "C05-frame-without-number", "new frame without a numeric MsgSeqNum", i)
                continue
            if n != expected_next:
                fail(cls or ("C05-number-reused" if n < expected_next else "C05-numbering-gap"),
                     "new message not numbered last + 1", i, expected_next, n)
            expected_next = n + 1
            sent[n] = (raw, i)
            if fget(fs, 49) != key[1] or fget(fs, 56) != key[0]:
                fail("C05-compids", "frame does not carry the session's CompIDs", i)
            if not serviced:
                rb = jr.recover_msg(sess, MD.OUTBOUND, n)
                if rb != raw:
                    fail(cls or "C05-readback", "recover_msg(OUTBOUND, n) is not the bytes just written for n", i,
                         raw.decode("latin-1"), None if rb is None else rb.decode("latin-1"))
        # ---- counters after every event
        stored = jr.sessions()[key].next_num_out
        if sess.next_num_out != expected_next:
            fail(cls or "C05-counter-vs-last-sent", "next_num_out is not the last new number + 1", i, expected_next,
                 sess.next_num_out)
            expected_next = sess.next_num_out  # resynchronise: report once
        if stored != sess.next_num_out:
            fail(cls or "C05-stored-counter", "stored next-outbound differs from the session counter", i,
                 sess.next_num_out, stored)
        if rig.snapshot_others() != others0:
            fail("C05-other-session-touched", "rows / counters of another session of the shared journal changed", i)
            others0 = rig.snapshot_others()
        for seq_no, raw, d, _k in jr.get_all_msgs(sessions=[sess], direction=MD.OUTBOUND):
            try:
                ok = jr.find_seq_no(raw) == seq_no and seq_no < sess.next_num_out
            except Exception:
                ok = False
            if not ok:
                fail(cls or "C05-row-key", "outbound row not stored under its own MsgSeqNum below the counter", i, seq_no)
                break
    # ---- at the end: every new message sent is represented under its number
    for n, (raw, step) in sorted(sent.items()):
        orig = fields(raw)
        rb = jr.recover_msg(sess, MD.OUTBOUND, n)
        row = None if rb is None else fields(rb)
        if rb == raw or (row is not None and is_copy(orig, row)):
            continue
        later = [r for r in resends if r[0] >= step]
        gapish = row is None or fget(row, 35) == "4"
        covering = [r for r in later if r[1] <= n and (r[2] == 0 or n <= r[2])]  # requests that asked for n
        allowed = bool(covering) and (fget(orig, 35) in SESSION_TYPES or any(declines(r[3], n) for r in covering))
        if gapish and allowed:
            continue
        if own_seen is not None:
            sig = "C05-app-own-number"
        else:
            sig = "C05-journal-lost-row"
        fail(sig, "a new message sent under n is no longer represented in the journal under n", len(events) - 1,
             raw.decode("latin-1"), None if rb is None else rb.decode("latin-1"))
    return fails


WITNESS_START = dict(state=17, role=1, sender="INIT", target="ACPT", next_in=7, next_out=42, sock=True,
                     was_active=True, last_time=S.T0)


def witness_d9():
    """former finding D9 (repaired by da179c4): kept as a regression history"""
    a = S.with_journal(S.AbsConn(**WITNESS_START), "empty")
    ev = [("all", ("send", S.T0, ("D", [(11, "one")]))), ("all", ("send", S.T0, ("D", [(11, "two")]))),
          ("all", ("recv", S.T0 + 125, S.inbound(a, "2", [(7, "42"), (16, "42")], seq=7, now_ms=S.T0 + 125)))]
    return a, ev


def witness_own():
    a = S.with_journal(S.AbsConn(**WITNESS_START), "empty")
    ev = [("all", ("send", S.T0, ("4", [(34, "3"), (36, "9")])))]
    return a, ev


def oracle(ctx, disagreements, broken):
    failures, n_hist, n_ev = [], 0, 0
    per_cfg, per_hook = {}, {}
    try:
        # 1. witnesses of the open / repaired findings, corpus
        for a, ev in (witness_d9(), witness_own()):
            failures += oracle_history(rig_for(CLASSIC), a, ev)
            n_hist += 1
        for d in load_corpus():
            failures += oracle_history(rig_for(d.get("cfg", CLASSIC)), S.parse_conn_tokens(d["start"]),
                                       [(sr, ev_tuple(e)) for sr, e in d["events"]], d.get("hook"))
            n_hist += 1
        # 2. the disagreeing inputs first
        for dg in disagreements[:200]:
            inp = dg["input"]
            if "events" in inp:
                failures += oracle_history(rig_for(inp.get("cfg", CLASSIC)), S.parse_conn_tokens(inp["start"]),
                                           [(sr, ev_tuple(e)) for sr, e in inp["events"]])
            elif "conn" in inp:
                a = S.parse_conn_tokens(inp["conn"])
                if a.stored_out + 1 == a.next_out and all(r[0] < a.next_out for r in a.out_rows):
                    ev = parse_event_tokens(inp["event"])
                    failures += oracle_history(rig_for(CLASSIC), a, [(inp["sr"], ev)])
            n_hist += 1
        # 3. generated histories over every configuration (journal kind x protocol class x shared journal x
        #    restarts): clean stream (no own-number sends: any failure is new; ResendRequests of every shape),
        #    and a stream with own-number sends (failures must carry the known signature)
        budget = ctx.n(240, 1500) * (4 if broken else 1)
        max_len = ctx.n(30, 60)
        for k in range(budget):
            own = (k % 4 == 3)
            cfg = CONFIGS[(k // 4) % len(CONFIGS)]
            rig = rig_for(cfg)
            start, steps = gen_history(ctx.rng, rig, max_len, own, True)
            evs = [(s[0], s[1]) for s in steps]
            failures += oracle_history(rig, start, evs)
            if k % 2 == 0:
                # the same history once more with application hooks that SEND (one new message per trigger)
                hook = HOOKS[(k // 2) % len(HOOKS)]
                failures += oracle_history(rig, start, evs, hook)
                hk = "state=%s%s%s" % (hook.get("state"), "+logon" if hook.get("logon") else "", "+message" if hook.get("message") else "")
                per_hook[hk] = per_hook.get(hk, 0) + 1
            n_hist += 1
            n_ev += len(evs)
            ck = f"{cfg['journal']}/{cfg['proto']}/{'shared' if cfg['others'] else 'alone'}/{'restarts' if cfg['restart'] else 'no-restart'}"
            per_cfg[ck] = per_cfg.get(ck, 0) + 1
    finally:
        close_rigs()
    # one representative (the shortest input) per signature is enough for a replay
    failures.sort(key=lambda f: len(f["input"]["events"]))
    ctx.oracle_stats = {"histories": n_hist, "events": n_ev, "failures": len(failures), "configurations": per_cfg,
                        "hook_histories": per_hook,
                        "by_signature": {s: sum(1 for f in failures if f["signature"] == s) for s in {f["signature"] for f in failures}}}
    return failures


def parse_event_tokens(text):
    t = text.split(" ")
    k = t[0]
    if k in ("recv", "send"):
        return (k, int(t[1]), S.parse_msg_tok(t[3]))
    if k in ("testreq", "tick", "eof"):
        return (k, int(t[1]))
    if k == "disc":
        return ("disc", int(t[1]), int(t[3]), None if t[4] == "none" else bytes.fromhex(t[4][1:]).decode())
    if k == "conn":
        return ("conn", t[1])
    return ("reset",)


def replay(ctx, rp):
    inp = rp["input"]
    try:
        fs = oracle_history(rig_for(inp.get("cfg", CLASSIC)), S.parse_conn_tokens(inp["start"]),
                            [(sr, ev_tuple(e)) for sr, e in inp["events"]], inp.get("hook"))
    finally:
        close_rigs()
    sigs = sorted({f["signature"] for f in fs})
    print("replay:", inp.get("cfg", CLASSIC), len(inp["events"]), "events ->", sigs)
    return rp["signature"] in sigs
