"""C20, wiring part: session scripts replayed step by step against

  T  the REAL `FIXTester` simulated acceptor (mock sockets, nested drain, `reply`, `process_msg_acceptor`)
  L  a REAL acceptor endpoint (`AsyncFIXDummyServer` subclass) and the same initiator class, connected by fake
     transports: what one side writes is handed to the other side's own `socket_read_task`

and against the Lean model (`tst.tstep` / `tst.lstep`, `tst.mkacc` / `tst.realacc`).  Clock and SendingTime are the
patched ones of harness/sess_common.py.  Nothing here is called by the model; the oracle compares T with L only.
"""
from __future__ import annotations

import sys
import traceback
import types

from . import common as C
from . import sess_common as S

T0 = S.T0
_IMPL = None


def world():
    """one patched clock for the whole process (sess_common.Impl installs it)"""
    global _IMPL
    if _IMPL is None:
        _IMPL = S.Impl()
    return _IMPL


class Log(C.LogBase):
    """logger stand-in: who logged an exception, and from where"""

    def __init__(self, route):
        self.route = route

    def debug(self, *a, **k):
        pass

    info = warning = error = debug

    def exception(self, *a, **k):
        fr = sys._getframe(1)
        who = fr.f_locals.get("self")
        kind = S.exc_kind(sys.exc_info()[0])
        tag = "R" if C.log_origin() == "task" else "C"
        self.route(who).append((tag, kind))


def hooks(base, eff):
    class H(base):
        async def on_message(self, msg):
            eff.append(("D", msg))

        async def on_connect(self):
            eff.append(("CN",))

        async def on_disconnect(self):
            eff.append(("DC",))

        async def on_logon(self, healthy):
            eff.append(("L", bool(healthy)))

        async def on_logout(self, msg):
            eff.append(("LO", msg))

        async def on_state_change(self, s):
            eff.append(("S", int(s)))

    return H


class RecList(list):
    """`initiator_sent` / `acceptor_sent` of the tester: records the append as a write in the trace"""

    def __init__(self, eff):
        super().__init__()
        self.eff = eff

    def append(self, m):
        self.eff.append(("W", m))
        super().append(m)


def _vtext(v):
    """text of a plain value; a class stored as value (RepeatingTagError marker of the decoder) shows by name"""
    return v if isinstance(v, str) else "<" + getattr(v, "__name__", type(v).__name__) + ">"


def flat_tags(container):
    """fields in wire order: a parsed repeating group is its counter followed by the fields of its items"""
    out = []
    for t, v in container.tags.items():
        groups = getattr(v, "groups", None)
        if groups is not None:
            out.append((int(t), str(len(groups))))
            for g in groups:
                out += flat_tags(g)
        else:
            out.append((int(t), _vtext(v)))
    return out


def struct_tags(container):
    """structure as the application sees it: groups stay groups"""
    out = []
    for t, v in container.tags.items():
        groups = getattr(v, "groups", None)
        if groups is not None:
            out.append([int(t), [struct_tags(g) for g in groups]])
        else:
            out.append([int(t), _vtext(v)])
    return out


def msg_fields(m):
    return (str(m.msg_type.value if hasattr(m.msg_type, "value") else m.msg_type), flat_tags(m))


def delivered_struct(eff):
    """what the hooks were handed (on_message / on_logout), groups kept"""
    return [[e[0], str(getattr(e[1].msg_type, "value", e[1].msg_type)), struct_tags(e[1])] for e in eff if e[0] in ("D", "LO")]


def canon(eff, acceptor_of_tester=False):
    out = []
    for e in eff:
        k = e[0]
        if k == "W":
            if isinstance(e[1], (bytes, bytearray)):
                fs = S.bytes_to_fields(bytes(e[1]))
                out.append("W=" + S.msg_tok((S.mtype_of(fs), fs)))
            else:
                out.append("W=" + S.msg_tok(msg_fields(e[1])))
        elif k in ("D", "LO"):
            out.append(k + "=" + S.msg_tok(msg_fields(e[1])))
        elif k == "L":
            out.append("L=" + ("1" if e[1] else "0"))
        elif k == "S":
            out.append(f"S={e[1]}")
        elif k in ("C", "R"):
            if acceptor_of_tester and k == "C" and e[1] == "Other:NotImplementedError":
                out.append("SNI")
            elif e[1] == "Other:UnicodeEncodeError":  # a ValueError (reply's own .encode("latin-1"))
                out.append(f"{k}=Value")
            else:
                out.append(f"{k}={e[1]}")
        else:
            out.append(k)
    return ";".join(out) if out else "-"


def dump_conn(c) -> str:
    """abstract state of a real connection (same tokens as sess_common.Impl.dump); `sock` = a writer is set"""
    w = world()
    s, j = c._session, c._journaler
    lt = c._message_last_time
    lt_ms = int(round(lt * 1000))
    assert lt_ms / 1000 == lt, "clock value is not a whole millisecond"
    cur = j.cursor
    cur.execute("SELECT outboundSeqNo, inboundSeqNo FROM session WHERE sessionId=?", (s.key,))
    so, si = next(cur)
    t = [
        str(int(c._connection_state)), str(c._connection_role.value), "1" if c._connection_was_active else "0",
        S.stok(s.sender_comp_id), S.stok(s.target_comp_id), str(s.next_num_in), str(s.next_num_out),
        str(c._max_seq_num_resend), "none" if c._test_req_id is None else str(c._test_req_id),
        str(lt_ms), str(c._heartbeat_period), "1" if c._socket_writer is not None else "0", str(so), str(si),
    ]
    for d in (w.MD.OUTBOUND, w.MD.INBOUND):
        cur.execute("SELECT seqNo, msg FROM message WHERE session=? AND direction=? ORDER BY seqNo", (s.key, d.value))
        rows = list(cur)
        t.append(str(len(rows)))
        for seq, raw in rows:
            fs = S.bytes_to_fields(raw)
            t += [str(seq), S.msg_tok((S.mtype_of(fs), fs))]
    return " ".join(t)


def forget_out(tokens: str) -> str:
    """acceptor state without the outbound half of the journal (stored counter and rows)"""
    a = S.parse_conn_tokens(tokens)
    a.stored_out, a.out_rows = 0, []
    return a.tokens()


def make_msg(spec):
    from asyncfix import FIXMessage, FMsg

    mt, tags = spec
    try:
        mt = FMsg(mt)
    except ValueError:
        pass
    m = FIXMessage(mt)
    for t, v in tags:
        if isinstance(v, list):  # a repeating group: list of items, each a list of (tag, value)
            from asyncfix.message import FIXContainer

            items = []
            for it in v:
                c = FIXContainer()
                for tt, vv in it:
                    c.set(tt, vv)
                items.append(c)
            m.set_group(t, items)
        else:
            m.set(t, v)
    return m


def flat_spec(spec):
    """the message as the (group-less) session model sees it: fields in wire order"""
    mt, tags = spec
    out = []
    for t, v in tags:
        if isinstance(v, list):
            out.append((t, str(len(v))))
            for it in v:
                out += [(tt, str(vv)) for tt, vv in it]
        else:
            out.append((t, str(v)))
    return (mt, out)


_PROTO = {}


def protocol_class(name):
    """initiator / real-acceptor configuration: the stock FIX 4.4 protocol or a user subclass of it"""
    from asyncfix import FTag
    from asyncfix.protocol import FIXProtocol44

    if name not in _PROTO:
        if name == "std":
            _PROTO[name] = FIXProtocol44
        elif name == "grp":  # one more repeating group (NoContraBrokers) and a custom group of user tags
            class ProtoGrp(FIXProtocol44):
                repeating_groups = dict(FIXProtocol44.repeating_groups)

            ProtoGrp.repeating_groups[FTag.NoContraBrokers] = [FTag.ContraBroker, FTag.ContraTrader, FTag.ContraTradeQty,
                                                              FTag.ContraTradeTime, FTag.ContraLegRefID]
            ProtoGrp.repeating_groups["20001"] = ["20002", "20003"]
            _PROTO[name] = ProtoGrp
        elif name == "sess":  # other session_message_types
            class ProtoSess(FIXProtocol44):
                session_message_types = set(FIXProtocol44.session_message_types) | {"U1"}

            _PROTO[name] = ProtoSess
        elif name == "bs42":  # other BeginString
            class ProtoBs(FIXProtocol44):
                beginstring = "FIX.4.2"

            _PROTO[name] = ProtoBs
        else:
            raise ValueError(name)
    return _PROTO[name]


DEFAULT_CFG = {"proto": "std", "hb": 30, "prejournal": 0}


def make_initiator(effI, log, ni, no, cfg=DEFAULT_CFG):
    """a real AsyncFIXClient (protocol class, heartbeat and journal history from `cfg`), counters set through the
    journal, connected through its own connect()"""
    import asyncfix.connection_client as cc
    from asyncfix.journaler import Journaler

    w = world()
    cls = hooks(cc.AsyncFIXClient, effI)
    j = Journaler()
    c = cls(protocol_class(cfg["proto"])(), "INIT", "ACPT", j, "h", 1, cfg["hb"], logger=log)
    if (ni, no) != (1, 1):
        j.set_seq_num(c._session, next_num_out=no, next_num_in=ni)
    # a journal that already holds the last messages of an earlier connection (rows below the counters)
    for k in range(cfg["prejournal"]):
        for seq, d, snd, tgt in ((no - 1 - k, w.MD.OUTBOUND, "INIT", "ACPT"), (ni - 1 - k, w.MD.INBOUND, "ACPT", "INIT")):
            if seq >= 1:
                _seq, (_mt, fs) = S.encode_row(snd, tgt, "D", ((11, f"old{seq}"), (58, "earlier session")), seq, T0 - 5000)
                j.cursor.execute("INSERT INTO message VALUES(?, ?, ?, ?)", (seq, c._session.key, d.value, S.fields_to_bytes(fs)))
    j.conn.commit()
    writer = S._Writer(effI)

    async def open_connection(host, port):
        return object(), writer

    async def no_tasks(self_):
        return None

    saved_base, saved_async = w.cm.AsyncFIXConnection.connect, cc.asyncio
    w.cm.AsyncFIXConnection.connect = no_tasks
    cc.asyncio = types.SimpleNamespace(open_connection=open_connection)
    try:
        S.run_coro(c.connect())
    finally:
        w.cm.AsyncFIXConnection.connect = saved_base
        cc.asyncio = saved_async
    del effI[:]
    return c


def read_task(conn, data: bytes):
    """hand `data` to the connection's own reader task: one read, then the iteration ends"""
    if not data:
        return
    if conn._socket_reader is None:
        return  # disconnected: nobody reads (the frames are lost with the socket)
    conn._socket_reader = S._Reader([data])
    try:
        S.run_coro(conn.socket_read_task())
    except S._Done:
        pass
    if conn._socket_reader is not None:
        conn._socket_reader = object()


def written(eff, start):
    return b"".join(bytes(e[1]) for e in eff[start:] if e[0] == "W")


class TSetup:
    """the tester: real initiator + FIXTester(schema, initiator)"""

    def __init__(self, ni, no, use_schema=False, cfg=DEFAULT_CFG):
        from asyncfix import FIXTester

        self.effI, self.effA = [], []
        self.log = Log(lambda who: self.effA if who is getattr(self, "ca", None) else self.effI)
        self.ci = make_initiator(self.effI, self.log, ni, no, cfg)
        schema = None
        if use_schema:
            from . import c20

            schema = c20.schema()
        self.ft = FIXTester(schema=schema, connection=self.ci)
        self.ca = self.ft.conn_accept
        self.ft.initiator_sent = RecList(self.effI)
        self.ft.acceptor_sent = RecList(self.effA)
        self.ci._socket_writer.close.side_effect = lambda: self.effI.append(("CS",))
        self.ca._socket_writer.close.side_effect = lambda: self.effA.append(("CS",))
        effA = self.effA

        # observers on the no-op hooks of the base class (on_message / on_connect stay the raising originals)
        async def st(s):
            effA.append(("S", int(s)))

        async def lg(h):
            effA.append(("L", bool(h)))

        async def lo(m):
            effA.append(("LO", m))

        async def dc():
            effA.append(("DC",))

        self.ca.on_state_change, self.ca.on_logon, self.ca.on_logout, self.ca.on_disconnect = st, lg, lo, dc

    def que_tokens(self):
        q = self.ft.acceptor_rcv_que
        return " ".join([str(len(q))] + [S.msg_tok(msg_fields(m)) for m, _raw in q])

    def fab_state(self):
        ft = self.ft
        return (ft._order_id, ft._exec_id, sorted(getattr(ft, "_order_ids", {}).items()))

    def refused_step(self, op, now_ms):
        """a helper call that must be refused (`op[1]` performs it): what it raised, and whether it left the session
        (both connections incl. journals, the queue, the wire) and the tester's fabrication counters untouched"""
        world().now_ms = now_ms
        del self.effI[:], self.effA[:]
        pre = (dump_conn(self.ci), dump_conn(self.ca), self.que_tokens())
        fpre = self.fab_state()
        try:
            r = op[1](self)
            if hasattr(r, "send"):
                S.run_coro(r)
            raised = "NOT-RAISED"
        except Exception as e:  # noqa
            raised = type(e).__name__
        post = (dump_conn(self.ci), dump_conn(self.ca), self.que_tokens())
        wire = [e for e in self.effI + self.effA if e[0] == "W"]
        self.struct = []
        return " # ".join(["refused", raised, "1" if pre == post and not wire else "0", "1" if fpre == self.fab_state() else "0"])

    def step(self, op, now_ms):
        if op[0] == "refused":
            return self.refused_step(op, now_ms)
        world().now_ms = now_ms
        del self.effI[:], self.effA[:]
        ft, ci = self.ft, self.ci
        out = "done"
        try:
            if op[0] == "isend":
                S.run_coro(ci.send_msg(make_msg(op[1])))
            elif op[0] == "itestreq":
                S.run_coro(ci.send_test_req())
            elif op[0] == "asend":
                S.run_coro(ft.reply(make_msg(op[1])))
            elif op[0] == "atestreq":
                S.run_coro(ft.reply(ft.msg_test_request(now_ms // 1000)))
        except Exception as e:  # noqa
            names = [f.name for f in traceback.extract_tb(e.__traceback__)]
            if op[0].startswith("i"):
                self.effI.append(("R", S.exc_kind(e)))
            else:
                out = "replyRaised"
                (self.effI if "_process_message" in names else self.effA).append(("R", S.exc_kind(e)))
        if out == "done" and ft.acceptor_rcv_que:
            try:
                S.run_coro(ft.process_msg_acceptor())
            except Exception as e:  # noqa
                names = [f.name for f in traceback.extract_tb(e.__traceback__)]
                if "_conn_socket_drain_acceptor" in names:
                    out = "nestedRaise"
                else:
                    out = "accRaised"
                    self.effA.append(("R", S.exc_kind(e)))
        self.struct = delivered_struct(self.effI)
        return " # ".join([out, canon(self.effI), canon(self.effA, True), dump_conn(self.ci), dump_conn(self.ca),
                           self.que_tokens()])


class LSetup:
    """two real endpoints: the same initiator class and an AsyncFIXDummyServer subclass"""

    def __init__(self, ni, no, cfg=DEFAULT_CFG):
        import asyncfix.connection_server as csrv
        from asyncfix.journaler import Journaler

        self.effI, self.effA = [], []
        self.log = Log(lambda who: self.effA if who is getattr(self, "ca", None) else self.effI)
        self.ci = make_initiator(self.effI, self.log, ni, no, cfg)
        cls = hooks(csrv.AsyncFIXDummyServer, self.effA)
        j = Journaler()
        # the counterparty is configured like the initiator (same protocol class); heartbeat 30 as the tester's
        self.ca = cls(protocol_class(cfg["proto"])(), "ACPT", "INIT", j, "h", 1, 30, logger=self.log)
        if (ni, no) != (1, 1):
            j.set_seq_num(self.ca._session, next_num_out=ni, next_num_in=no)
        S.run_coro(self.ca._handle_accept(object(), S._Writer(self.effA)))
        del self.effA[:]

    def step(self, op, now_ms):
        if op[0] == "refused":  # the real endpoint never sees a call the helper refused
            self.struct = []
            return "skipped"
        world().now_ms = now_ms
        del self.effI[:], self.effA[:]
        ci, ca = self.ci, self.ca
        if op[0].startswith("i"):
            snd, rcv, es, er = ci, ca, self.effI, self.effA
        else:
            snd, rcv, es, er = ca, ci, self.effA, self.effI
        try:
            if op[0] in ("isend", "asend"):
                S.run_coro(snd.send_msg(make_msg(op[1])))
            else:
                S.run_coro(snd.send_test_req())
        except Exception as e:  # noqa
            es.append(("R", S.exc_kind(e)))
        n_r = len(er)
        read_task(rcv, written(es, 0))
        n_s = len(es)
        read_task(snd, written(er, n_r))
        n_r2 = len(er)
        read_task(rcv, written(es, n_s))
        quiet = not written(er, n_r2)
        self.struct = delivered_struct(self.effI)
        return " # ".join(["1" if quiet else "0", canon(self.effI), canon(self.effA), dump_conn(self.ci), dump_conn(self.ca)])


# ---------------------------------------------------------------------------------------------
# scripts
# ---------------------------------------------------------------------------------------------
MID = ["appI", "appA", "trI", "trA", "hbI", "hbA"]
LOGON = ("A", [(98, "0"), (108, "30")])


def group_payload(rng, k, direction):
    """application message carrying repeating groups: NoContraBrokers (known to the `grp` protocol only), a group of
    user tags (likewise), NoPartyIDs (known to the stock protocol); 1-3 items"""
    n = rng.choice([1, 2, 2, 3])
    tags = [(11, f"g{k}"), (37, "1")]
    which = rng.random()
    if which < 0.5:
        tags.append((382, [[(375, f"broker{i}"), (337, f"trader{i}")] + ([(437, str(10 + i))] if rng.random() < 0.5 else [])
                           for i in range(n)]))
    elif which < 0.75:
        tags.append((20001, [[(20002, f"u{i}"), (20003, "x")] for i in range(n)]))
    else:
        tags.append((453, [[(448, f"party{i}"), (447, "D"), (452, "1")] for i in range(n)]))
    tags.append((58, rng.choice(["after the group", "café"])))
    return ("D" if direction == "I" else "8", tags)


def payload(rng, k, direction, groups=False, valid_only=False):
    if groups and not valid_only and rng.random() < 0.6:
        return group_payload(rng, k, direction)
    kind = rng.random() if not valid_only else 0.7 + 0.3 * rng.random()
    if kind < 0.5:
        return ("D" if direction == "I" else "8", [(11, f"c{k}"), (58, rng.choice(["text", "fill 1/8", "x" * 40, "café", "grüß ÿ"]))])
    if kind < 0.7:
        return ("U1", [(58, f"custom{k}")])
    if kind < 0.85:
        return ("D", [(11, f"ord--{k}"), (55, "T"), (1, "000000"), (40, "2"), (54, "1"), (60, "20240102-03:04:05.678"),
                      (44, "100.0"), (38, "10.0")])
    return ("8", [(11, f"ord--{k}"), (37, "1"), (17, str(10000 + k)), (150, "0"), (39, "0"), (54, "1"), (14, "0.0"),
                  (151, "10.0"), (55, "T"), (44, "100.0"), (38, "10.0"), (6, "0.0"), (1, "000000")])


def op_of(name, rng, k, cfg=DEFAULT_CFG, valid_only=False):
    if name == "logon":
        return ("isend", ("A", [(98, "0"), (108, str(cfg["hb"]))]))
    if name == "appI":
        return ("isend", payload(rng, k, "I", cfg["proto"] == "grp", valid_only))
    if name == "appA":
        return ("asend", payload(rng, k, "A", cfg["proto"] == "grp", valid_only))
    if name == "trI":
        return ("itestreq",)
    if name == "trA":
        return ("atestreq",)
    if name == "hbI":
        return ("isend", ("0", []))
    if name == "hbA":
        return ("asend", ("0", []))
    if name == "logoutI":
        return ("isend", ("5", []))
    if name == "logoutA":
        return ("asend", ("5", []))
    # unclean steps (correspondence of the model's other branches; not judged by the lockstep oracle)
    if name == "x-appI-early":
        return ("isend", ("D", [(58, "too early")]))
    if name == "x-asend-seqreset-no34":
        return ("asend", ("4", [(123, "N"), (36, "9")]))
    if name == "x-asend-raw34":
        return ("asend", ("D", [(34, str(rng.choice([1, 2, 50]))), (58, "raw")]))
    if name == "appA-latin1":
        return ("asend", ("D", [(58, rng.choice(["café", "grüß", "ÿ"]))]))
    if name == "x-asend-nonlatin1":
        return ("asend", ("D", [(58, "€ uro")]))
    if name == "x-isend-nonlatin1":
        return ("isend", ("D", [(58, "€ uro")]))
    if name == "x-asend-early":
        return ("asend", ("D", [(58, "before logon")]))
    if name == "x-isend-testreq":
        return ("isend", ("1", [(112, "7")]))
    raise ValueError(name)


UNCLEAN = ["x-appI-early", "x-asend-seqreset-no34", "x-asend-raw34", "x-asend-nonlatin1", "x-isend-nonlatin1", "x-asend-early",
           "x-isend-testreq"]


FLOW = ["ordI", "repA", "repA", "repA-refused", "fabA-unknown", "replyA-refused"]


def msg_spec(m):
    return (str(getattr(m.msg_type, "value", m.msg_type)), flat_tags(m))


class Flow:
    """one order driven through the wire: the initiator sends its NewOrderSingle, the tester fabricates the reports that are
    `reply()`ed (the real endpoint is handed the same message), refused helper calls in between"""

    def __init__(self, seed):
        import random

        self.rng = random.Random(str(seed) + "/flow")
        self.o, self.n, self.pending = None, 0, None

    def new_order(self, ft):
        from asyncfix.protocol.common import FOrdSide
        from asyncfix.protocol.order_single import FIXNewOrderSingle

        self.n += 1
        self.o = FIXNewOrderSingle(f"flow{self.n}", "T", FOrdSide.BUY, float(self.rng.randint(8, 800)) / 8, float(self.rng.randint(8, 400)) / 8)
        ft.order_register_single(self.o)
        return self.o

    def natural(self):
        """arguments of the next natural report for the order's state"""
        from asyncfix.protocol.common import FExecType as X, FOrdStatus as St

        o, rng = self.o, self.rng
        st = str(o.status.value)
        if st == "A" and o.order_id is None and rng.random() < 0.5:
            return dict(exec_type=X.PENDING_NEW, ord_status=St.PENDING_NEW)
        if st == "A":
            return dict(exec_type=X.NEW, ord_status=St.NEW, cum_qty=0.0, leaves_qty=float(o.qty))
        if st in ("0", "1") and o.leaves_qty > 0:
            x = min(o.leaves_qty, rng.randint(1, max(1, int(o.leaves_qty * 8))) / 8)
            lv = o.leaves_qty - x
            return dict(exec_type=X.TRADE, ord_status=St.FILLED if lv == 0 else St.PARTIALLY_FILLED, cum_qty=o.cum_qty + x,
                        leaves_qty=lv, last_qty=x, avg_price=float(rng.randint(8, 800)) / 8)
        return None

    def bad_fabrication(self, T):
        """a fabrication call the helper must refuse"""
        from asyncfix.protocol.common import FExecType as X, FOrdStatus as St

        o, ft, k = self.o, T.ft, self.rng.randrange(4)
        if k == 0:
            return ft.fix_exec_report_msg(o, o.clord_id, X.NEW, St.NEW, cum_qty=o.qty + 1.0, leaves_qty=0.0)
        if k == 1:
            return ft.fix_exec_report_msg(o, o.clord_id, X.NEW, St.NEW, cum_qty=0.0, leaves_qty=float(o.qty), last_qty=1.0)
        if k == 2:
            return ft.fix_exec_report_msg(o, "", X.NEW, St.NEW)
        return ft.fix_exec_report_msg(o, o.clord_id, X.TRADE, St.FILLED, cum_qty=float(o.qty), leaves_qty=1.0, last_qty=float(o.qty))


INVALID_REPLIES = [
    ("8", [(11, "c1"), (58, "an ExecutionReport without its required members")]),
    ("8", [(11, "c1"), (37, "1"), (17, "9"), (150, "?"), (39, "0"), (54, "1"), (14, "0.0"), (151, "1.0"), (55, "T"), (6, "0.0")]),
    ("D", [(11, "c1"), (55, "T"), (54, "1"), (60, "20240102-03:04:05.678"), (40, "2"), (38, "ten")]),
    ("0", [(112, "x"), (37, "tag of another message")]),
    ("ZZ", [(58, "unknown message type")]),
]


def flow_op(name, T, flow, rng):
    from . import c20
    from asyncfix.protocol.common import FExecType as X, FOrdSide, FOrdStatus as St
    from asyncfix.protocol.order_single import FIXNewOrderSingle

    ft = T.ft
    if name == "ordI":
        o = flow.new_order(ft)
        with c20.patched_time():
            m = o.new_req()
        ft.order_register_single(o)
        return ("isend", msg_spec(m))
    if name == "repA":
        args = flow.natural() if flow.o is not None else None
        if args is None:
            return ("asend", ("0", []))
        m = ft.fix_exec_report_msg(flow.o, flow.o.clord_id, args.pop("exec_type"), args.pop("ord_status"), **args)
        flow.pending = m
        return ("asend", msg_spec(m))
    if name == "repA-refused":
        if flow.o is None:
            flow.new_order(ft)
        return ("refused", lambda T_: flow.bad_fabrication(T_), "fabrication")
    if name == "fabA-unknown":
        stranger = FIXNewOrderSingle("stranger", "T", FOrdSide.SELL, 10.0, 1.0)
        return ("refused", lambda T_: T_.ft.fix_exec_report_msg(stranger, "stranger", X.NEW, St.NEW), "fabrication")
    if name == "replyA-refused":
        spec = rng.choice(INVALID_REPLIES)
        return ("refused", lambda T_: T_.ft.reply(make_msg(spec)), "reply")
    raise ValueError(name)


def flow_script(rng, max_len, use_schema):
    n = rng.randint(2, max(2, max_len - 1))
    pool = MID + FLOW * 2
    if not use_schema:
        pool = [x for x in pool if x != "replyA-refused"]
    names = ["logon", "ordI"] + [rng.choice(pool) for _ in range(n - 1)]
    if rng.random() < 0.3:
        names.append(rng.choice(["logoutI", "logoutA"]))
    return names


def clean_script(rng, max_len):
    n = rng.randint(0, max_len - 2)
    names = ["logon"] + [rng.choice(MID) for _ in range(n)]
    r = rng.random()
    if r < 0.3:
        names.append("logoutI")
    elif r < 0.5:
        names.append("logoutA")
    return names


def op_tokens(op):
    if op[0] in ("isend", "asend"):
        return f"{op[0]} {S.msg_tok(flat_spec(op[1]))}"
    return op[0]


def run_script(names, counters, seed, use_schema=False, fuel=8, cfg=DEFAULT_CFG):
    """replay one script on T and L; returns the per-step records (an exception while the set-ups are built is
    a record of its own)"""
    import random

    rng = random.Random(seed)
    ni, no = counters
    try:
        T, L = TSetup(ni, no, use_schema, cfg), LSetup(ni, no, cfg)
    except Exception as e:  # noqa
        return [{"name": "init", "setup_raised": f"{type(e).__name__}: {e}"}]
    recs = [{"name": "init", "t_init": (dump_conn(T.ci), dump_conn(T.ca)), "l_init": (dump_conn(L.ci), dump_conn(L.ca))}]
    now = T0
    flow = Flow(seed)
    for k, name in enumerate(names):
        now += 1000
        try:
            op = flow_op(name, T, flow, rng) if name in FLOW else op_of(name, rng, k, cfg, use_schema)
        except Exception as e:  # noqa  a fabrication the scenario needs was refused / raised
            recs.append({"name": name, "op": ("none",), "t_line": None, "l_line": None, "l_struct": None, "t_struct": None,
                         "t_out": f"helper-raised {type(e).__name__}: {e}", "l_out": "skipped"})
            break
        stamp = S.stok(S.stamp(now))
        t_pre = (dump_conn(T.ci), dump_conn(T.ca), T.que_tokens())
        l_pre = (dump_conn(L.ci), dump_conn(L.ca))
        try:
            t_out, t_struct = T.step(op, now), T.struct
        except Exception as e:  # noqa  (the harness's own canonicalisation must not hide an implementation fault)
            t_out, t_struct = f"harness-raised {type(e).__name__}: {e}", None
        try:
            l_out, l_struct = L.step(op, now), L.struct
        except Exception as e:  # noqa
            l_out, l_struct = f"harness-raised {type(e).__name__}: {e}", None
        refused = op[0] == "refused"
        recs.append({
            "name": name, "op": op if not refused else ("refused", op[2]),
            "t_line": None if refused else f"tst.tstep all all {fuel} {now} {stamp} {t_pre[0]} | {t_pre[1]} | {t_pre[2]} OP {op_tokens(op)}",
            "l_line": None if refused else f"tst.lstep all all {now} {stamp} {l_pre[0]} | {l_pre[1]} OP {op_tokens(op)}",
            "t_out": t_out, "l_out": l_out, "t_struct": t_struct, "l_struct": l_struct,
        })
        if flow.pending is not None:  # the application's on_message hands the report to the order object
            try:
                flow.o.process_execution_report(flow.pending)
            except Exception:  # noqa
                pass
            flow.pending = None
    return recs


def lockstep_diff(rec):
    """what the initiator (and an observer of the acceptor's state) can tell apart between T and L in one step"""
    t = rec["t_out"].split(" # ")
    l = rec["l_out"].split(" # ")
    if t[0].startswith("helper-raised"):
        return "scenario-fabrication-refused:" + t[0][14:60]
    if t[0] == "refused":
        if t[1] == "NOT-RAISED":
            return "invalid-call-accepted"
        if t[2] != "1":
            return "refused-call-touched-the-session"
        return None
    if t[0].startswith("harness-raised") or l[0].startswith("harness-raised"):
        return "unrenderable:" + (t[0] if t[0].startswith("harness") else l[0])[:60]
    if t[0] != "done":
        return f"tester-outcome:{t[0]}"
    if l[0] != "1":
        return "link-not-quiet"

    def frames(e):
        return [x for x in e.split(";") if x.startswith("W=")]

    def hooks_only(e):
        return [x for x in e.split(";") if not (x.startswith("D=") or x == "SNI" or x == "-")]

    if frames(t[1]) != frames(l[1]):
        return "frames-from-initiator"
    if frames(t[2]) != frames(l[2]):
        return "frames-from-acceptor"
    if t[1] != l[1]:
        return "initiator-trace"
    if rec.get("t_struct") != rec.get("l_struct"):
        return "delivered-message-structure"
    if t[3] != l[3]:
        a, b = S.parse_conn_tokens(t[3]), S.parse_conn_tokens(l[3])
        if (a.state, a.role) != (b.state, b.role):
            return "initiator-state"
        if (a.next_in, a.next_out) != (b.next_in, b.next_out):
            return "initiator-counters"
        return "initiator-other"
    if hooks_only(t[2]) != hooks_only(l[2]):
        return "acceptor-trace"
    if forget_out(t[4]) != forget_out(l[4]):
        a, b = S.parse_conn_tokens(t[4]), S.parse_conn_tokens(l[4])
        if (a.state, a.role) != (b.state, b.role):
            return "acceptor-state"
        if (a.next_in, a.next_out) != (b.next_in, b.next_out):
            return "acceptor-counters"
        return "acceptor-other"
    if t[5] != "0":
        return "tester-queue-not-empty"
    return None


COUNTERS = [(1, 1), (1, 1), (1, 1), (5, 7), (12, 4), (40, 41)]


def gen_cfg(rng):
    """configuration of the initiator under the tester: protocol class, heartbeat, journal history"""
    return {"proto": rng.choice(["std"] * 5 + ["grp"] * 3 + ["sess", "bs42"]), "hb": rng.choice([30, 30, 5, 60, 1]),
            "prejournal": rng.choice([0, 0, 0, 1, 3])}


def gen_scripts(ctx, n, max_len, exhaustive_len):
    """(names, counters, configuration, schema attached)"""
    import itertools

    rng = ctx.rng
    out = []
    for ln in range(0, exhaustive_len + 1):
        for mid in itertools.product(MID, repeat=ln):
            for end in ([], ["logoutI"], ["logoutA"]) if ln <= 2 else ([],):
                out.append((["logon"] + list(mid) + end, (1, 1), DEFAULT_CFG, False))
    while len(out) < n:
        r = rng.random()
        if r < 0.35:  # an order driven through the wire, refused helper calls in between; half of them with the schema attached
            sch = rng.random() < 0.5
            cfg = dict(gen_cfg(rng), proto=rng.choice(["std", "std", "sess"]))
            out.append((flow_script(rng, max_len, sch), rng.choice(COUNTERS), cfg, sch))
        else:
            out.append((clean_script(rng, max_len), rng.choice(COUNTERS), gen_cfg(rng), False))
    return out


def correspondence(ctx, drv):
    rng = ctx.rng
    dis, branches, samples = [], {}, []
    distinct = set()

    def inc(k):
        branches[k] = branches.get(k, 0) + 1

    scripts = gen_scripts(ctx, ctx.n(200, 1500), ctx.n(8, 12), ctx.n(2, 4))
    # unclean scripts: the model's other branches
    for _ in range(ctx.n(40, 300)):
        names = clean_script(rng, 6)
        pos = rng.randrange(0, len(names) + 1)
        names.insert(pos, rng.choice(UNCLEAN))
        scripts.append((names, rng.choice(COUNTERS), dict(gen_cfg(rng), proto=rng.choice(["std", "grp", "sess"])), False))
    lines, index, all_recs = [], [], []
    for si, (names, counters, cfg, sch) in enumerate(scripts):
        recs = run_script(names, counters, f"{ctx.seed}/{si}", use_schema=sch, cfg=cfg)
        inc(f"cfg:schema={int(sch)}")
        all_recs.append((names, counters, recs, cfg, sch))
        inc(f"cfg:proto={cfg['proto']}")
        inc(f"cfg:hb={cfg['hb']}")
        inc(f"cfg:prejournal={cfg['prejournal']}")
        init = recs[0]
        if "setup_raised" in init:
            dis.append({"input": {"kind": "script", "names": names[:1], "counters": list(counters), "seed": f"{ctx.seed}/{si}",
                                  "cfg": cfg, "schema": sch}, "model": "set-up succeeds", "impl": init["setup_raised"]})
            continue
        for r in recs[1:]:
            if r["t_out"].startswith("refused"):
                inc("wire:refused:" + r["op"][1] + ":" + " ".join(r["t_out"].split(" # ")[1:]))
        if cfg["proto"] == "bs42":  # another BeginString is outside the model (Proto.beginString): oracle only
            continue
        lines.append("tst.mkacc " + init["t_init"][0])
        index.append((si, 0, "mkacc", init["t_init"][1]))
        lines.append("tst.realacc " + init["l_init"][0])
        index.append((si, 0, "realacc", init["l_init"][1]))
        for k, r in enumerate(recs[1:], 1):
            if r["t_line"] is None:  # a refused helper call: no model step (implementation-only clause)
                continue
            lines.append(r["t_line"])
            index.append((si, k, "t", r["t_out"]))
            lines.append(r["l_line"])
            index.append((si, k, "l", r["l_out"]))
    model = drv.batch(lines) if lines else []
    bad = set()
    for ml, (si, k, which, il) in zip(model, index):
        names, counters, recs, cfg, _sch = all_recs[si]
        if which in ("t", "l"):
            inc(f"wire:{which}:{recs[k]['name']}")
            op = recs[k]["op"]
            if op[0] in ("isend", "asend") and any(isinstance(v, list) for _t, v in op[1][1]):
                inc("wire:group-payload:" + "/".join(str(len(v)) for _t, v in op[1][1] if isinstance(v, list)) + "-items")
            distinct.add((which, recs[k]["name"], il.split(" # ")[0], il.split(" # ")[3][:8], counters))
        if which == "t" and il.startswith("nestedRaise"):
            il, ml = il.split(" # ")[0], ml.split(" # ")[0]  # outside the model: only the outcome is claimed
        if il != ml and (si, which) not in bad:
            bad.add((si, which))
            dis.append({"input": {"kind": "script", "names": names[: max(k, 1)], "counters": list(counters),
                                  "seed": f"{ctx.seed}/{si}", "which": which, "step": k, "cfg": cfg,
                                  "schema": all_recs[si][4]},
                        "model": ml, "impl": il})
    if all_recs:
        names, counters, recs, _cfg, _sch = all_recs[0]
        samples.append({"input": {"script": names, "step": recs[-1]["t_line"][:300]}, "model": recs[-1]["t_out"][:300]})
    return {
        "evaluations": len(lines), "distinct": len(distinct), "branches": branches, "samples": samples, "disagreements": dis,
        "rule": "%d clean scripts (logon, then application messages / TestRequest / Heartbeat either way, optional Logout by "
        "either side; all scripts with ≤ %d middle steps exhaustively, the rest random up to length %d, synchronised start counters "
        "from a small set, payload text incl. non-ASCII latin-1; random scripts run under a random CONFIGURATION of the initiator: stock protocol / a subclass with two more repeating groups (then 60%% of the application messages carry 1-3 items of a group only that subclass knows, or of a stock group) / a subclass with another session_message_types set, heartbeat 30/5/60/1, 0/1/3 rows of an earlier session in the journal; 35%% of the random scripts drive an order through the wire - NewOrderSingle by the initiator, reports fabricated by the tester and reply()ed, the same message handed to the real endpoint - with REFUSED helper calls in between (bad fabrication arguments, unknown order, with a schema attached: reply() of a schema-invalid message), which have no model step) and %d scripts with one unclean step (message before Logon, reply of a SequenceReset without 34, reply with "
        "its own 34, text outside latin-1 either way, TestRequest through send_msg); every step replayed on the real FIXTester and on a "
        "real AsyncFIXDummyServer endpoint (reader task, fake transports) and compared with tst.tstep / tst.lstep: outcome, "
        "both effect traces, both connection states incl. journals, the tester's queue; mkAcceptor / realAcceptor vs the "
        "objects" % (ctx.n(200, 1500), ctx.n(2, 4), ctx.n(8, 12), ctx.n(40, 300)),
    }


def oracle(ctx, failures, stats, disagreements, broken):
    rng = ctx.rng
    scripts = gen_scripts(ctx, ctx.n(120, 800) * (3 if broken else 1), ctx.n(8, 12), ctx.n(1, 2))
    scripts = [(n, c, cfg, sch, None) for n, c, cfg, sch in scripts]
    # regressions of repaired findings: a reply with non-ASCII single-byte text; another BeginString
    scripts.insert(0, (["logon", "appA-latin1", "appI"], (1, 1), DEFAULT_CFG, False, None))
    scripts.insert(1, (["logon", "appI", "appA"], (1, 1), {"proto": "bs42", "hb": 30, "prejournal": 0}, False, None))
    # a reply carrying a group only the initiator's protocol knows, 2 and 3 items
    scripts.insert(2, (["logon", "appA", "appA", "appI", "appA"], (5, 7), {"proto": "grp", "hb": 5, "prejournal": 1}, False, None))
    # refused calls followed by valid traffic, schema attached
    scripts.insert(3, (["logon", "ordI", "replyA-refused", "repA", "repA-refused", "repA", "fabA-unknown", "replyA-refused", "repA", "appI"],
                       (1, 1), DEFAULT_CFG, True, None))
    for d in disagreements:  # the disagreeing inputs first, replayed exactly (same seed, same configuration)
        inp = d.get("input")
        if isinstance(inp, dict) and inp.get("kind") == "script":
            scripts.insert(4, (inp["names"], tuple(inp["counters"]), inp.get("cfg", DEFAULT_CFG), inp.get("schema", False), inp["seed"]))
    steps, dist, refused, consumed = 0, {}, {}, 0
    for si, (names, counters, cfg, sch, seed) in enumerate(scripts):
        seed = seed or f"o{ctx.seed}/{si}"
        dist[cfg["proto"]] = dist.get(cfg["proto"], 0) + 1
        recs = run_script(names, counters, seed, use_schema=sch, cfg=cfg)
        inp = {"kind": "script", "names": names, "counters": list(counters), "seed": seed, "cfg": cfg, "schema": sch}
        if "setup_raised" in recs[0]:
            failures.append({"signature": "C20-tester-setup-raises:" + recs[0]["setup_raised"].split(":")[0],
                             "what": "FIXTester / the endpoints could not be built for this configuration",
                             "input": dict(inp, names=names[:1]), "observed": recs[0]["setup_raised"]})
            continue
        for k, r in enumerate(recs[1:], 1):
            steps += 1
            if r["t_out"].startswith("refused"):
                parts = r["t_out"].split(" # ")
                refused[r["op"][1] + ":" + parts[1]] = refused.get(r["op"][1] + ":" + parts[1], 0) + 1
                consumed += parts[3] == "0"
            diff = lockstep_diff(r)
            if diff is None:
                continue
            if r["name"].startswith("x-"):
                break
            if r["t_out"].startswith("refused"):
                sig, what = f"C20-refused-call:{r['name']}:{diff}", "a helper call that must be refused was accepted, or left a trace in the session"
            else:
                sig, what = f"C20-lockstep:{r['name']}:{diff}", "tester and real acceptor endpoint differ in a clean script"
            failures.append({"signature": sig, "what": what, "input": dict(inp, names=names[:k]),
                             "expected": (r["l_out"][:400], r.get("l_struct")), "observed": (r["t_out"][:400], r.get("t_struct"))})
            break
    stats["script_steps"] = steps
    stats["scripts"] = len(scripts)
    stats["script_protocols"] = dist
    stats["refused_calls_in_scripts"] = refused
    stats["refused_fabrications_that_consumed_an_ExecID_or_OrderID"] = consumed


def replay(ctx, inp, sig):
    recs = run_script(inp["names"], tuple(inp["counters"]), inp["seed"], use_schema=inp.get("schema", False),
                      cfg=inp.get("cfg", DEFAULT_CFG))
    if "setup_raised" in recs[0]:
        print("replay: set-up raised", recs[0]["setup_raised"])
        return True
    for r in recs[1:]:
        d = lockstep_diff(r)
        print("replay:", r["name"], "->", d)
        if d is not None:
            return True
    return False
