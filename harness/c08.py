"""C08 – the journal survives a process crash at any point.  DESIGN.md §6 C08.

tie:    a real file-backed Journaler in a CHILD process; a proxy around the sqlite3 connection / cursor
        counts execute() / commit() / rollback() calls and calls os._exit() before the (k+1)-th or right after the k-th;
        the parent reopens the file with a fresh Journaler and reads counters (both load paths) and all
        rows; compared with the Lean model's `reopen (session ops k)` (driver: jrn.start k … jrn.restart -).
        Every crash point of every sequence, plus normal close (del journaler) and normal process exit.
oracle: the property clauses checked directly on the reopened file against a pure-Python reference of the
        completed operations (independent of Lean).
"""
from __future__ import annotations

import json
import multiprocessing
import os
import shutil
import subprocess
import sys
import tempfile

from . import c13
from . import common as C

PROP = "C08"
PROPS_MODULES = ["AsyncFix.Props.C08"]
ASSUMPTIONS = [
    "SQLite commits atomically and process death (os._exit) leaves exactly the last commit (rollback journal); "
    "this is the definition of Conn.crash / Conn.commit in the model",
    "crash points are the boundaries of execute()/commit() calls; Python code between two calls has no effect on the file",
    "the model's crash semantics assume SQLite's default durability configuration of the connection (an on-disk rollback "
    "journal: journal_mode delete/truncate/persist/wal); the connection's PRAGMAs are read on every run, a difference from a "
    "plain connection is a broken tie, journal_mode memory/off is reported as C08-pragma-weakens-atomic-commit",
    "the many-rows journal of the quick tier (reset-6000-tiny-rows) is filled through the journal's own connection with one "
    "executemany + one counter UPDATE + one commit instead of 5 700 persist_msg() calls; the model is given the 5 700 "
    "persist calls, and the reopened file at the first crash point is compared with it (so equality of the two is checked, "
    "not assumed)",
    "journal size is not a parameter of the model (atomic commit is assumed for any size); transactions larger than "
    "SQLite's page cache are covered by the large-journal scenarios of the correspondence / oracle only",
] + c13.ASSUMPTIONS
MODELLED_NOT_VERIFIED = c13.MODELLED_NOT_VERIFIED
I63 = 2**63
# witness of the former finding C08-set-seq-num-overflow-half-applied (fixed by 493a9a7), kept as a standing
# regression case of the oracle: frames b"\x0134=1\x01" / b"\x0134=7\x01"
WITNESS = [["col", "T", "S"], ["persist", 0, 1, (b"\x0134=1\x01").hex(), 1], ["set", 0, 1, I63],
           ["persist", 0, 0, (b"\x0134=7\x01").hex(), 7]]


# ----------------------------------------------------------------------------------------------
# crash injection (child side)
# ----------------------------------------------------------------------------------------------
class Killer:
    def __init__(self, k, mode):
        self.n, self.k, self.mode = 0, k, mode
        self.ncommit = 0

    def before(self):
        if self.k is not None and self.mode == "before" and self.n == self.k:
            os._exit(99)
        self.n += 1

    def after(self):
        if self.k is not None and self.mode == "after" and self.n == self.k:
            os._exit(99)


class CursorProxy:
    def __init__(self, cur, killer):
        self._c, self._k = cur, killer

    def execute(self, *a, **kw):
        self._k.before()
        try:
            return self._c.execute(*a, **kw)
        finally:
            self._k.after()

    def __iter__(self):
        return iter(self._c)

    def __next__(self):
        return next(self._c)

    def __getattr__(self, name):
        return getattr(self._c, name)


class ConnProxy:
    def __init__(self, conn, killer):
        self._c, self._k = conn, killer

    def cursor(self):
        return CursorProxy(self._c.cursor(), self._k)

    def commit(self):
        self._k.before()
        self._k.ncommit += 1
        try:
            return self._c.commit()
        finally:
            self._k.after()

    def rollback(self):
        self._k.before()
        try:
            return self._c.rollback()
        finally:
            self._k.after()

    def __getattr__(self, name):
        return getattr(self._c, name)


def install(killer):
    import sqlite3

    real = sqlite3.connect
    sqlite3.connect = lambda *a, **kw: ConnProxy(real(*a, **kw), killer)
    return real


def run_ops(path, ops, killer):
    """run the op list on a Journaler(path) whose sqlite3 calls go through the proxy;
    returns (lines, replies, calls after each op)"""
    import sqlite3

    real = install(killer)
    try:
        im = c13.Impl(path)
        cum = [killer.n]
        com = [killer.ncommit]
        for op in ops:
            im.step(tuple(op))
            cum.append(killer.n)
            com.append(killer.ncommit)
        im.commits = [b - a for a, b in zip(com, com[1:])]   # commit() calls made by each public call
        lines, out = im.lines, im.out
        return im, lines, out, cum
    finally:
        sqlite3.connect = real


RETRIEVAL_BOUNDS = [(-I63, I63 - 1), ("9", "10"), ("8", "12"), ("95", "105"), ("1", "1000"), (9, "11"), ("-5", "5")]


def read_state(path):
    """what a fresh Journaler sees: canonical replies for restart, sessions, col of every pair, getall"""
    from asyncfix.journaler import Journaler

    j = Journaler(path)
    lines, out = ["jrn.restart -"], ["none tx=0"]
    ses = j.sessions()
    lines.append("jrn.sessions")
    out.append("d " + ",".join(f"{C.hx(k[0])}/{C.hx(k[1])}={c13.hstr(v)}" for k, v in ses.items()) + " tx=0")
    rows = j.get_all_msgs()
    lines.append("jrn.getall - -")
    out.append("r " + ",".join(f"{a}:{C.hx(m)}:{d}:{s}" for a, m, d, s in rows) + " tx=0")
    from asyncfix.message import MessageDirection as D

    retrieved = []
    have = {(s, d) for a, m, d, s in rows}
    for (t, s) in ses:
        h = j.create_or_load(t, s)
        lines.append(f"jrn.col {C.hx(t)} {C.hx(s)}")
        out.append("h " + c13.hstr(h) + " tx=1")
        # "still retrievable": range queries with int and with str bounds (the documented int | str), also where the
        # text order of the bounds is the reverse of their numeric order
        for d in (0, 1):
            if (h.key, d) not in have:
                continue
            for lo, hi in RETRIEVAL_BOUNDS:
                lines.append(f"jrn.rec {h.key} {'out' if d == 1 else 'in'} {c13.btok(lo)} {c13.btok(hi)}")
                try:
                    got = j.recover_messages(h, D.OUTBOUND if d == 1 else D.INBOUND, lo, hi)
                    out.append("m " + ",".join(C.hx(m) for m in got) + " tx=1")
                    retrieved.append([h.key, d, lo, hi, [m.hex() for m in got]])
                except Exception as e:  # noqa
                    out.append("e " + c13.exc_kind(e) + " tx=1")
                    retrieved.append([h.key, d, lo, hi, f"{type(e).__name__}: {e}"])
    state = {"counters": {f"{v.key}": [v.next_num_out, v.next_num_in] for v in ses.values()},
             "rows": sorted((s, d, a, m.hex()) for a, m, d, s in rows), "retrieved": retrieved}
    del j
    return lines, out, state


class Snapper(Killer):
    """no crash: before every call, copy what the file system holds (database + rollback journal) – exactly
    what an abrupt process death at that moment would leave behind"""

    def __init__(self, path, dest):
        super().__init__(None, None)
        self.path, self.dest = path, dest

    def snap(self):
        base = os.path.join(self.dest, f"s{self.n}.db")
        for suffix in ("", "-journal"):
            if os.path.exists(self.path + suffix):
                shutil.copyfile(self.path + suffix, base + suffix)

    def before(self):
        self.snap()
        self.n += 1


def dry_run(d, ops, snap=False):
    """the op list without a crash (in this process; sqlite3.connect is patched only for the duration)"""
    path = os.path.join(d, "dry.db")
    killer = Snapper(path, d) if snap else Killer(None, None)
    im, lines, out, cum = run_ops(path, ops, killer)
    if snap:
        killer.snap()  # after the last call
    fired = list(im.fired)
    commits = list(im.commits)
    im.close()
    return {"lines": lines, "out": out, "cum": cum, "faults": fired, "commits": commits}


def observe(path, k, mode, code):
    try:
        lines, out, state = read_state(path)
        err = None
    except Exception as e:  # noqa
        lines, out, state, err = [], [], None, f"{type(e).__name__}: {e}"
    return {"k": k, "mode": mode, "exit": code, "lines": lines, "out": out, "state": state, "err": err}


def crash_case(args):
    """worker: one sequence.  points = "all" (a forked child per crash point: os._exit before the (k+1)-th /
    right after the k-th call, and normal close), "snap" (file-system snapshots at every call boundary of one
    run), or an explicit list [(k, mode)] of forked children."""
    idx, ops, points = args
    d = c13.mktmp("verif-c08-")
    try:
        dry = dry_run(d, ops, snap=(points == "snap"))
        total = dry["cum"][-1]
        results = []
        if points == "snap":
            for k in range(total + 1):
                results.append(observe(os.path.join(d, f"s{k}.db"), k, "snap", 99))
            return {"idx": idx, "ops": ops, "dry": dry, "results": results}
        if points == "all":
            pts = [(k, "before") for k in range(0, total + 1)] + [(k, "after") for k in range(1, total + 1)] + [(None, "close")]
        else:
            pts = [tuple(p) for p in points]
        for n, (k, mode) in enumerate(pts):
            path = os.path.join(d, f"c{n}.db")
            pid = os.fork()
            if pid == 0:
                try:
                    im, *_ = run_ops(path, ops, Killer(k, mode))
                    if mode == "close":
                        im.close()  # normal close: drops the Journaler (its __del__ closes cursor and connection)
                finally:
                    os._exit(0)
            _, status = os.waitpid(pid, 0)
            results.append(observe(path, k, mode, os.waitstatus_to_exitcode(status)))
        return {"idx": idx, "ops": ops, "dry": dry, "results": results}
    finally:
        shutil.rmtree(d, ignore_errors=True)


def run_cases(cases, procs=None, budget_s=None, min_cases=0):
    """map crash_case over the cases in a fork pool; with a budget, stop handing out cases once it is used up
    (but never before `min_cases`); returns the results of the cases that were run, in order"""
    import time

    procs = procs or min(16, os.cpu_count() or 4)
    ctx = multiprocessing.get_context("fork")
    t0 = time.time()
    out = []
    with ctx.Pool(procs) as pool:
        step = max(1, procs // 4) if budget_s is not None else procs * 2
        for a in range(0, len(cases), step):
            if budget_s is not None and a >= min_cases and time.time() - t0 > budget_s:
                break
            out += pool.map(crash_case, cases[a:a + step], chunksize=1)
    return out


# ----------------------------------------------------------------------------------------------
# size dimension: journals of several MB, so that one truncating set_seq_num is a multi-page transaction that
# does not fit SQLite's page cache; a new process on a copy of that file is killed at every call boundary
# ----------------------------------------------------------------------------------------------
DIGEST_MOD = 2305843009213693951


def row_digest(rows):
    t = 0
    for a, m, d, s in rows:
        t = (t + (a * 1000003 + d * 7 + s * 13 + len(m) * 17 + sum(m)) % DIGEST_MOD) % DIGEST_MOD
    return t


def big_frame(i, pad, rng_byte):
    body = b"%06d" % i + bytes([rng_byte]) * pad
    return (b"8=FIX.4.4\x019=75\x0135=D\x0149=S\x0156=T\x0134=%d\x0152=20260922-07:13:26.808\x0158=" % i) + body + b"\x0110=100\x01"


def big_scenarios(tier):
    """(name, sessions, messages per session and direction, padding bytes, the truncating call)"""
    scn = [{"name": "reset-5MB-one-session", "n": 1200, "pad": 3000, "sessions": 1, "both_dirs": False, "set": [1, 1]},
           # row COUNT independent of bytes: thousands of tiny rows in one direction, a few hundred in the other
           {"name": "reset-6000-tiny-rows", "n": 300, "n_in": 5400, "pad": 0, "sessions": 1, "both_dirs": False, "set": [1, 1],
            "fast_build": True}]
    if tier == "thorough":
        scn += [
            {"name": "truncate-half-6MB-two-sessions", "n": 1500, "pad": 2000, "sessions": 2, "both_dirs": False, "set": [700, None],
             "after_too": True},
            {"name": "reset-many-small-rows", "n": 4000, "pad": 150, "sessions": 1, "both_dirs": True, "set": [1, 1]},
            {"name": "reset-large-bodies", "n": 300, "pad": 20000, "sessions": 1, "both_dirs": True, "set": [1, 1]},
        ]
    return scn


def observe_big(path, k, mode, code):
    from asyncfix.journaler import Journaler

    lines = ["jrn.restart -", "jrn.sessions", "jrn.digest"]
    try:
        j = Journaler(path)
        ses = j.sessions()
        rows = j.get_all_msgs()
        integ = j.conn.execute("PRAGMA integrity_check").fetchone()[0]
        out = ["none tx=0",
               "d " + ",".join(f"{C.hx(kk[0])}/{C.hx(kk[1])}={c13.hstr(v)}" for kk, v in ses.items()) + " tx=0",
               f"g {len(rows)} {row_digest(rows)} tx=0"]
        state = {"counters": {str(v.key): [v.next_num_out, v.next_num_in] for v in ses.values()},
                 "rows": len(rows), "digest": row_digest(rows), "integrity_check": integ}
        del j
        err = None if integ == "ok" else "integrity_check: " + str(integ)[:200]
    except Exception as e:  # noqa
        out, state, err = [], None, f"{type(e).__name__}: {e}"
    return {"k": k, "mode": mode, "exit": code, "lines": lines, "out": out, "state": state, "err": err}


def big_case(scn):
    """worker: build the large journal once (every store call returns, normal close), then a new process per crash
    point on a copy of the file: open, load the session, the truncating set_seq_num, killed at call boundary k"""
    d = c13.mktmp("verif-c08big-")
    try:
        base = os.path.join(d, "base.db")
        im = c13.Impl(base)
        pairs = [("T", "S"), ("S", "T")][: scn["sessions"]]
        for t, s_ in pairs:
            im.step(("col", t, s_))
        expect_rows = []
        n_out = scn["n"]
        n_in = scn.get("n_in", scn["n"] if scn["both_dirs"] else 0)
        fast = []
        for i in range(1, max(n_out, n_in) + 1):
            for ref in range(len(pairs)):
                for dd in (1, 0):
                    if i > (n_out if dd == 1 else n_in):
                        continue
                    m = big_frame(i, scn["pad"], 97 + (i % 7))
                    if scn.get("fast_build"):
                        # thousands of rows: written through the journal's own connection in one transaction instead
                        # of one persist_msg() each (the model still gets one persist line per row; that both arrive
                        # at the same journal is compared at the first crash point)
                        fast.append((i, ref + 1, dd, m))
                        im.lines.append(f"jrn.persist {ref + 1} 1 1 {'out' if dd == 1 else 'in'} {C.hx(m)}")
                    else:
                        im.step(("persist", ref, dd, m.hex()))
                    expect_rows.append((i, m, dd, ref + 1))
        if fast:
            conn = im.j.conn
            conn.executemany("INSERT INTO message VALUES(?, ?, ?, ?)", fast)
            for ref in range(len(pairs)):
                conn.execute("UPDATE session SET outboundSeqNo=?, inboundSeqNo=? WHERE sessionId = ?", (n_out, n_in, ref + 1))
            conn.commit()
        im.close()
        build_lines = im.lines
        tail = [["col", "T", "S"], ["set", 0, scn["set"][0], scn["set"][1]]]
        shutil.copyfile(base, os.path.join(d, "dry.db"))
        dry = dry_run_at(os.path.join(d, "dry.db"), tail)
        total = dry["cum"][-1]
        pts = [(k, "before") for k in range(0, total + 1)] + [(None, "close")]
        if scn.get("after_too"):
            pts += [(k, "after") for k in range(1, total + 1)]
        results = []
        for n, (k, mode) in enumerate(pts):
            path = os.path.join(d, f"c{n}.db")
            shutil.copyfile(base, path)
            pid = os.fork()
            if pid == 0:
                try:
                    im2, *_ = run_ops(path, tail, Killer(k, mode))
                    if mode == "close":
                        im2.close()
                finally:
                    os._exit(0)
            _, status = os.waitpid(pid, 0)
            results.append(observe_big(path, k, mode, os.waitstatus_to_exitcode(status)))
            for suffix in ("", "-journal"):
                if os.path.exists(path + suffix):
                    os.remove(path + suffix)
        # reference states (independent of the model): before = everything stored, after = truncated
        o, i_ = scn["set"]
        nout, nin = n_out + 1, n_in + 1
        before = {"counters": {str(r + 1): [nout, nin] for r in range(len(pairs))}, "rows": len(expect_rows),
                  "digest": row_digest(expect_rows)}
        o2, i2 = (nout if o is None else o), (nin if i_ is None else i_)
        kept = [r for r in expect_rows if not (r[3] == 1 and r[0] >= (o2 if r[2] == 1 else i2))]
        after = {"counters": dict(before["counters"], **{"1": [o2, i2]}), "rows": len(kept), "digest": row_digest(kept)}
        size = os.path.getsize(base)
        return {"scn": scn, "build_lines": build_lines, "tail_lines": dry["lines"], "cum": dry["cum"],
                "commits": dry["commits"], "tail": tail, "results": results,
                "before": before, "after": after, "file_bytes": size}
    finally:
        shutil.rmtree(d, ignore_errors=True)


def dry_run_at(path, ops):
    killer = Killer(None, None)
    im, lines, out, cum = run_ops(path, ops, killer)
    commits = list(im.commits)
    im.close()
    return {"lines": lines, "out": out, "cum": cum, "commits": commits}


_BIG_CACHE = {}


def run_big(tier):
    key = (tier, C.REPO)
    if key not in _BIG_CACHE:
        scn = big_scenarios(tier)
        ctx = multiprocessing.get_context("fork")
        with ctx.Pool(min(4, len(scn))) as pool:
            _BIG_CACHE[key] = pool.map(big_case, scn, chunksize=1)
    return _BIG_CACHE[key]


def commit_clause(ops, commits, inp):
    """a public call is ONE transaction: it commits at most once (more commits = its effect can reach the file in parts)"""
    for op, n in zip(ops, commits or []):
        if n > 1:
            return [{"signature": "C08-operation-commits-more-than-once",
                     "what": f"{METHOD.get(c13.conv_of(op)[1][0], op[0])} called commit() {n} times: between two of them the "
                             "file holds a part of the operation",
                     "input": inp, "expected": "at most one commit() per public call", "observed": n}]
    return []


def check_big(r, weak):
    """property clauses on a large-journal scenario (implementation + reference only)"""
    fails = commit_clause(r.get("tail", []), r.get("commits"), {"big": r["scn"], "k": None, "mode": "close",
                                                                  "file_bytes": r["file_bytes"]})
    cum = r["cum"]
    for c in r["results"]:
        inp = {"big": r["scn"], "k": c["k"], "mode": c["mode"], "file_bytes": r["file_bytes"]}
        st = c["state"] and {k: c["state"][k] for k in ("counters", "rows", "digest")}
        if c["k"] is None or c["k"] >= cum[-1]:
            allowed = [r["after"]]
        elif c["k"] <= cum[1]:
            allowed = [r["before"]]
        else:
            allowed = [r["before"], r["after"]]
        if c["err"] is None and st in allowed:
            continue
        if c["err"]:
            s, what = "C08-reopen-unusable", "after the crash the journal file cannot be used: " + c["err"]
        elif c["k"] is None:
            s, what = "C08-close-loses-data", "closing the journal normally lost or changed data"
        else:
            s, what = "C08-state-not-at-op-boundary", "the reopened file is not at a boundary between completed operations"
        if weak:
            s = "C08-pragma-weakens-atomic-commit"
            what = f"connection configured with {weak}: " + what
        fails.append({"signature": s, "what": what, "input": inp,
                      "expected": [{k: a[k] for k in ("counters", "rows")} for a in allowed],
                      "observed": c["err"] or {k: st[k] for k in ("counters", "rows")}})
    return fails


# ----------------------------------------------------------------------------------------------
# configuration: the connection's PRAGMAs against what the crash semantics of the model assume
# ----------------------------------------------------------------------------------------------
PRAGMAS = ["journal_mode", "synchronous", "locking_mode", "auto_vacuum", "cache_spill", "temp_store"]


def connection_pragmas():
    """(what a Journaler's file connection uses, what a plain sqlite3.connect uses here)"""
    import sqlite3

    from asyncfix.journaler import Journaler

    d = c13.mktmp("verif-c08p-")
    try:
        j = Journaler(os.path.join(d, "a.db"))
        mine = {p: j.conn.execute("PRAGMA " + p).fetchone()[0] for p in PRAGMAS}
        del j
        c = sqlite3.connect(os.path.join(d, "b.db"))
        base = {p: c.execute("PRAGMA " + p).fetchone()[0] for p in PRAGMAS}
        c.close()
        return mine, base
    finally:
        shutil.rmtree(d, ignore_errors=True)


def weak_pragmas(mine):
    """settings under which SQLite itself no longer promises that a process death leaves the last commit"""
    w = []
    if str(mine.get("journal_mode", "")).lower() in ("memory", "off"):
        w.append(f"journal_mode={mine['journal_mode']}")
    return ", ".join(w)


def normal_exit_case(ops):
    """the process exits normally (interpreter shutdown) without an explicit close: a real subprocess"""
    d = c13.mktmp("verif-c08x-")
    try:
        path = os.path.join(d, "x.db")
        script = (
            "import json,sys\n"
            "from harness import c13\n"
            "ops=json.loads(sys.argv[2]); im=c13.Impl(sys.argv[1])\n"
            "for op in ops: im.step(tuple(op))\n"
            "print(json.dumps({'lines': im.lines}))\n"
        )
        env = C.env_for_repo()
        env["PYTHONPATH"] = env["PYTHONPATH"] + ":" + C.VERIF
        p = subprocess.run([C.PY, "-W", "ignore", "-c", script, path, json.dumps(ops)], capture_output=True, text=True,
                           env=env, timeout=120)
        if p.returncode != 0:
            raise RuntimeError("normal-exit child failed: " + p.stderr[-400:])
        lines = json.loads(p.stdout.strip().split("\n")[-1])["lines"]
        rl, ro, state = read_state(path)
        return lines, rl, ro, state
    finally:
        shutil.rmtree(d, ignore_errors=True)


# ----------------------------------------------------------------------------------------------
# generators
# ----------------------------------------------------------------------------------------------
def gen_ops(rng, maxlen, allow_half=False, allow_limit=False):
    pairs = [("T", "S"), ("S", "T"), rng.choice(c13.PAIRS[2:])]
    ops = [["col"] + list(rng.choice(pairs[:2]))]
    if rng.random() < 0.6:
        # two (or three) sessions in one file: slots 0 and 1 denote different sessions from the start
        ops.append(["col"] + list(rng.choice([p for p in pairs if list(p) != ops[0][1:]])))
    st = {"desc": rng.choice([9, 2**31 + 4, 2**62 + 4])}
    stored = []
    limit = allow_limit and rng.random() < 0.2
    if limit:
        ops.append(["limit", 1500])     # real DataError for frames above it (implementation-only sequences)
    n = rng.randint(len(ops), maxlen + len(ops) - 1)
    while len(ops) < n:
        v = rng.random()
        if rng.random() < 0.15:
            # collaborator fault: the j-th execute()/commit() of the next call raises an sqlite3 error, once
            ops.append(["fault", rng.choice([0, 0, 1, 1, 2, 3]), rng.choice(c13.FAULT_KINDS)])
            n += 1
        if v < 0.15:
            ops.append(["col"] + list(rng.choice(pairs)))
        elif v < 0.65:
            ref, d = rng.randrange(4), rng.randint(0, 1)
            w = rng.random()
            if stored and w < 0.2:
                ops.append(list(rng.choice(stored)))
                continue
            if w < 0.3:
                ops.append(["persist", ref, d, c13.frame(rng, rng.choice(c13.BAD_NUM)).hex(), None])
                continue
            num = rng.choice(c13.DIGIT_EDGES) if rng.random() < 0.3 else c13.pick_num(rng, st)
            while not (-I63 <= num < I63):
                num = c13.pick_num(rng, st)
            content = c13.frame_content(rng)
            if limit and rng.random() < 0.5:
                content[1].add("large")
            op = ["persist", ref, d, c13.frame(rng, c13.num_text(rng, num), content=content).hex(), num]
            stored.append(op)
            ops.append(op)
        elif v < 0.9:
            vals = [None, 1, 1, 2, 3, 6, 2**31, 2**62, I63 - 1, 0, I63 + 1] + ([I63] if allow_half else [])
            ops.append(["set", rng.randrange(4), rng.choice(vals), rng.choice(vals)])
        elif v < 0.95:
            ops.append(["rec", rng.randrange(4), rng.randint(0, 1), rng.choice([0, 1, -I63]), rng.choice([5, I63 - 1, I63])])
        else:
            ops.append(["getall", None, None])
    return [list(c13.with_conv(rng, op)) if op[0] in ("col", "persist", "set", "rec", "getall") else op for op in ops]


def conv_count(seqs):
    out = {}
    for ops in seqs:
        for op in ops:
            k = c13.conv_of(op)[0]
            out[k] = out.get(k, 0) + 1
    return dict(sorted(out.items()))


def load_corpus():
    import glob

    out = []
    for p in sorted(glob.glob(os.path.join(C.VERIF, "corpus", "journal", "c08_*.json"))):
        with open(p) as f:
            for case in json.load(f):
                out.append(case["ops"])
    return out


def is_half(line):
    """is this `jrn.set K O I a b` line in the class of the former finding (UPDATE binds, an effective next
    number = 2^63 makes a DELETE raise)?  Failures of such sequences get their own signature."""
    t = line.split(" ")
    if t[0] != "jrn.set":
        return False
    K, O, I = int(t[1]), int(t[2]), int(t[3])
    o = O if t[4] == "-" else int(t[4])
    i = I if t[5] == "-" else int(t[5])
    if (t[4] != "-" and o <= 0) or (t[5] != "-" and i <= 0):
        return False
    fits = lambda x: -I63 <= x < I63  # noqa
    return fits(i - 1) and fits(o - 1) and fits(K) and not (fits(i) and fits(o))


# ----------------------------------------------------------------------------------------------
# correspondence
# ----------------------------------------------------------------------------------------------
def correspondence(ctx):
    drv = C.Driver()
    corpus = load_corpus()
    nseq = ctx.n(150, 1500)
    maxlen = ctx.n(4, 6)
    seqs = list(corpus) + [gen_ops(ctx.rng, maxlen, allow_half=(i % 10 == 0)) for i in range(nseq)]
    # (a) every call boundary of every sequence from file-system snapshots of one run
    import time
    t0 = time.time()
    res_snap = run_cases([(i, ops, "snap") for i, ops in enumerate(seqs)])
    t1 = time.time()
    # (b) real abrupt process exits: a forked child per crash point (both flavours) + normal close, for as many
    #     sequences (in order) as fit the time budget, at least `min_cases`
    res_fork = run_cases([(i, ops, "all") for i, ops in enumerate(seqs)], budget_s=ctx.n(8, 240),
                         min_cases=ctx.n(3, len(corpus) + 3))
    ctx.note(f"C08 correspondence: snapshots of {len(seqs)} sequences in {t1 - t0:.1f}s, real process exits for "
             f"{len(res_fork)} sequences in {time.time() - t1:.1f}s")
    res = res_snap + res_fork
    all_lines, spans, impl_all = [], [], []
    meta = []
    for r in res:
        dry = r["dry"]
        for c in r["results"]:
            fuel = "-" if c["k"] is None else str(c["k"])
            lines = [f"jrn.start {fuel}"] + dry["lines"][1:] + c["lines"]
            spans.append((len(all_lines), len(lines), len(dry["lines"])))
            all_lines += lines
            impl_all.append(c)
            meta.append(r)
    model_all = drv.batch(all_lines)
    dis, evals, dist = [], 0, {"before": 0, "after": 0, "close": 0, "snap": 0}
    exitcodes = {}
    nontriv = 0
    distinct = set()
    for (a, n, ndry), c, r in zip(spans, impl_all, meta):
        evals += 1
        dist[c["mode"]] += 1
        exitcodes[c["exit"]] = exitcodes.get(c["exit"], 0) + 1
        model = model_all[a:a + n]
        mod_re = model[ndry:]
        total = r["dry"]["cum"][-1]
        bad = None
        if c["err"]:
            bad = ("reopen failed: " + c["err"], "")
        elif mod_re != c["out"]:
            i = next((i for i, (x, y) in enumerate(zip(mod_re, c["out"])) if x != y), 0)
            bad = (c["out"][i] if i < len(c["out"]) else "", mod_re[i] if i < len(mod_re) else "")
        # the model must die exactly where the child died
        died_model = "dead" in model[:ndry]
        died_impl = c["exit"] == 99
        if bad is None and c["mode"] == "before" and died_model != died_impl:
            bad = (f"exit={c['exit']}", f"model dead={died_model}")
        if c["k"] is not None and 0 < c["k"] < total:
            distinct.add((json.dumps(r["ops"]), c["k"], c["mode"]))
            nontriv = len(distinct)
        if bad:
            dis.append({"input": {"ops": r["ops"], "k": c["k"], "mode": c["mode"]}, "model": bad[1], "impl": bad[0]})
    # call counts agree (model's jrn.calls vs the proxy's count) – on the no-crash run
    cl = []
    for r in res_snap:
        cl += ["jrn.start -"] + r["dry"]["lines"][1:] + ["jrn.calls"]
    cm = drv.batch(cl)
    pos = 0
    for r in res_snap:
        pos += len(r["dry"]["lines"]) + 1
        if int(cm[pos - 1]) != r["dry"]["cum"][-1]:
            dis.append({"input": {"ops": r["ops"], "what": "number of execute()/commit() calls"},
                        "model": cm[pos - 1], "impl": r["dry"]["cum"][-1]})
        evals += 1
    # normal process exit without close
    for ops in seqs[: ctx.n(3, 20)]:
        lines, rl, ro, _ = normal_exit_case(ops)
        m = drv.batch(["jrn.start -"] + lines[1:] + rl)
        evals += 1
        if m[len(lines):] != ro:
            dis.append({"input": {"ops": ops, "mode": "process-exit"}, "model": m[len(lines):], "impl": ro})
    # configuration: the PRAGMAs of a Journaler's file connection vs. a plain connection (what the model assumes)
    mine, base = connection_pragmas()
    evals += 1
    if mine != base:
        dis.append({"input": {"what": "PRAGMAs of the journal's file connection", "pragmas": PRAGMAS},
                    "model": base, "impl": mine})
    # size: large journals, a truncating set_seq_num killed at every call boundary of a new process
    t2 = time.time()
    bigs = run_big(ctx.tier)
    ctx.note(f"C08 correspondence: {len(bigs)} large journal(s) built and killed at every call boundary in {time.time() - t2:.1f}s")
    big_dist = []
    for r in bigs:
        bl = ["jrn.start -"] + r["build_lines"][1:] + ["jrn.save"]
        spans2 = []
        for c in r["results"]:
            fuel = "-" if c["k"] is None else str(c["k"])
            spans2.append(len(bl) + 2 + len(r["tail_lines"]) - 1)
            bl += ["jrn.load", f"jrn.restart {fuel}"] + r["tail_lines"][1:] + c["lines"]
        bm = drv.batch(bl)
        for c, a in zip(r["results"], spans2):
            evals += 1
            got = bm[a:a + len(c["lines"])]
            dist["big:" + c["mode"]] = dist.get("big:" + c["mode"], 0) + 1
            if c["err"] or got != c["out"]:
                i = next((i for i, (x, y) in enumerate(zip(got, c["out"])) if x != y), 0)
                dis.append({"input": {"big": r["scn"], "k": c["k"], "mode": c["mode"]},
                            "model": got[i] if i < len(got) else "", "impl": c["err"] or (c["out"][i] if i < len(c["out"]) else "")})
        big_dist.append({"scenario": r["scn"]["name"], "file_bytes": r["file_bytes"], "rows": r["before"]["rows"],
                         "commits_per_call_of_new_process": r["commits"],
                         "crash_points": len(r["results"]), "calls_of_new_process": r["cum"]})
    content = {}
    for r in res_snap:
        for l in r["dry"]["lines"]:
            t = l.split(" ")
            if t[0] == "jrn.persist":
                cl = c13.content_class(C.unhx(t[5]), 1 if t[4] == "out" else 0)
                content[cl] = content.get(cl, 0) + 1
    samples = [{"ops": r["ops"], "calls_after_each_op": r["dry"]["cum"],
                "crash_points": len(r["results"])} for r in res_fork[len(corpus):len(corpus) + 3]]
    return {
        "evaluations": evals,
        "distinct_nontrivial": nontriv,
        "rule": "every call boundary k = 0..all of every sequence: (snap) the files as the file system holds them at that "
        "moment of one run (what a process death leaves), and – for the first sequences, as many as fit the time "
        "budget – (before/after) os._exit in a forked child before the (k+1)-th / right after the k-th "
        "execute()/commit(), + normal close (del) + normal process exit; the reopened file (sessions(), create_or_load "
        "of every pair, get_all_msgs) compared with the model's reopen(session ops k); non-trivial = crash strictly "
        "inside the run (0 < k < total calls)",
        "samples": samples,
        "exhaustive": False,
        "distribution": {"sequences": len(seqs), "sequences_with_real_process_exits": len(res_fork),
                         "corpus": len(corpus), "max_len": maxlen, "points": dist,
                         "stored_frame_content": dict(sorted(content.items())),
                         "large_journals": big_dist, "connection_pragmas": mine,
                         "calling_conventions": conv_count(seqs),
                         "sequences_with_two_or_more_sessions": sum(
                             1 for ops in seqs if len({tuple(o[1:3]) for o in ops if o[0] == "col"}) >= 2),
                         "exit_codes": {str(k): v for k, v in exitcodes.items()}},
        "disagreements": dis,
    }


# ----------------------------------------------------------------------------------------------
# oracle (implementation + pure-Python reference only)
# ----------------------------------------------------------------------------------------------
FAULT_REPLY = ("e Operational", "e Data")


def raised_fault(reply):
    """did this call raise a storage error (injected fault / SQLite's own DataError)?"""
    return reply is not None and (reply.startswith(FAULT_REPLY) or (
        reply.startswith("s ") and reply.split(" ")[2] in ("Operational", "Data")))


METHOD = {"col": "create_or_load", "persist": "persist_msg", "set": "set_seq_num", "rec": "recover_messages",
          "rec1": "recover_msg", "getall": "get_all_msgs", "sessions": "sessions"}


def ref_states(ops, lines, out=None, fired=()):
    """reference states after each completed op: list of (counters {key: [out,in]}, rows {(sid,dir,seq): hex}), and the
    calls that failed because a statement raised a storage error: [(op index, method, SQL verb)].
    Uses the resolved handle values recorded in the lines (K O I), the intended numbers carried by the ops, and – only
    to know WHETHER a call raised a storage error – the replies of the no-crash run.  Clause for such a call: all or
    nothing, i.e. nothing (it raised)."""
    counters, rows, ids = {}, {}, {}
    states = [({}, {})]
    failed = []
    verb = {li: w for li, w in fired}
    li = 1
    for oi, op0 in enumerate(ops):
        op = list(c13.conv_of(op0)[1])
        line = lines[li].split(" ") if li < len(lines) else None
        reply = out[li] if out is not None and li < len(out) else None
        k = op[0]
        bad = raised_fault(reply) and k not in ("fault", "limit", "fab")
        if bad:
            failed.append((oi, METHOD.get(k, k), verb.get(li, "oversized")))
        if k == "limit":
            states.append(({a: list(b) for a, b in counters.items()}, dict(rows)))
            continue
        if k == "fault":
            li += 1
        elif k == "col":
            key = (op[1], op[2])
            if key not in ids and not bad:
                ids[key] = len(ids) + 1
                counters[str(ids[key])] = [1, 1]
            li += 1
        elif k == "persist":
            K, d, num = int(line[1]), op[2], op[4]
            if not bad and num is not None and -I63 <= K < I63 and (K, d, num) not in rows:
                rows[(K, d, num)] = op[3]
                if str(K) in counters:
                    counters[str(K)][0 if d == 1 else 1] = num + 1
            li += 1
        elif k == "set":
            K, O, I = int(line[1]), int(line[2]), int(line[3])
            o = O if op[2] is None else op[2]
            i = I if op[3] is None else op[3]
            ok = not ((op[2] is not None and o <= 0) or (op[3] is not None and i <= 0))
            fits = lambda x: -I63 <= x < I63  # noqa
            if not bad and ok and fits(o - 1) and fits(i - 1) and fits(K) and fits(o) and fits(i):
                # property: a renumbering that returns is applied entirely; one that raises (a number that SQLite
                # cannot hold, a failing statement) must leave nothing behind
                if str(K) in counters:
                    counters[str(K)] = [o, i]
                for key in [key for key in rows if key[0] == K and key[2] >= (o if key[1] == 1 else i)]:
                    del rows[key]
            li += 1
        elif k in ("rec", "rec1", "getall", "sessions"):
            li += 1
        states.append(({a: list(b) for a, b in counters.items()}, dict(rows)))
    return states, failed


def check_case(r):
    """property clauses on one sequence's crash results; returns failures"""
    ops, dry = r["ops"], r["dry"]
    lines, cum = dry["lines"], dry["cum"]
    half = any(is_half(l) for l in lines)
    states, failed = ref_states(ops, lines, dry.get("out"), dry.get("faults", ()))
    fails = commit_clause(ops, dry.get("commits"), {"ops": ops, "k": None, "mode": "close"})
    plain = [c13.conv_of(o)[1] for o in ops]

    def sig(s, done=None):
        if half:
            return "C08-set-seq-num-overflow-half-applied"
        # input class: a call that failed because a statement raised a storage error had returned before the
        # crash / close -> <method>:<statement>:<clause>:<immediately | after-later-call>
        prior = [f for f in failed if done is not None and f[0] < done]
        if prior:
            oi, method, verb = prior[-1]
            when = "immediately" if all(plain[x][0] in ("fault", "limit") for x in range(oi + 1, done)) else "after-later-call"
            return f"C08-fault:{method}:{verb}:{s[4:]}:{when}"
        return s

    for c in r["results"]:
        inp = {"ops": ops, "k": c["k"], "mode": c["mode"]}
        if c["err"] or c["state"] is None:
            fails.append({"signature": sig("C08-reopen-unusable"), "what": "reopening the file failed", "input": inp,
                          "observed": c["err"]})
            continue
        obs = (c["state"]["counters"], {(s, d, a): m for s, d, a, m in c["state"]["rows"]})
        # every stored message is still retrievable byte for byte: the range queries (int and str bounds) return
        # exactly the stored rows whose number lies numerically within the bounds
        for sid, d, lo, hi, got in c["state"].get("retrieved", []):
            lov, hiv = c13.bound_value(lo), c13.bound_value(hi)
            want = [m for (a, m) in sorted((a, m) for (s_, d_, a), m in obs[1].items() if s_ == sid and d_ == d and lov <= a <= hiv)]
            if got != want:
                fails.append({"signature": "C08-stored-message-not-retrievable",
                              "what": "after reopening, a range query does not return the stored messages within its bounds",
                              "input": dict(inp, query=[sid, d, lo, hi]), "expected": len(want),
                              "observed": got if isinstance(got, str) else len(got)})
                break
        if c["k"] is None:
            done = len(ops)
            allowed = [states[done]]
        elif c["k"] < cum[0]:
            done = 0
            allowed = [states[0]]
        else:
            done = max(i for i in range(len(cum)) if cum[i] <= c["k"])
            allowed = [states[done]] + ([states[done + 1]] if done + 1 < len(states) else [])
        if obs in allowed:
            continue
        cnt, rows = obs
        what, s = "the reopened file is not at a boundary between completed operations", "C08-state-not-at-op-boundary"
        if c["k"] is None:
            what, s = "closing the journal normally lost or changed data", "C08-close-loses-data"
        elif done >= 1 and obs == states[done - 1] and plain[done - 1][0] == "set":
            what, s = "a completed set/reset of the sequence numbers was lost", "C08-completed-set-lost"
        elif done >= 1 and obs == states[done - 1] and plain[done - 1][0] == "persist":
            what, s = "a message whose store call had returned is gone", "C08-returned-persist-lost"
        elif cnt == states[done][0] and any(key not in states[done][1] for key in rows):
            what, s = "a message row exists without its counter update", "C08-row-without-counter"
        fails.append({"signature": sig(s, done), "what": what, "input": inp,
                      "expected": [{"counters": a[0], "rows": len(a[1])} for a in allowed],
                      "observed": {"counters": cnt, "rows": sorted(f"{k[0]}/{k[1]}/{k[2]}" for k in rows)}})
    return fails


def oracle(ctx, disagreements, broken):
    seqs = [WITNESS]
    for d in disagreements[:20]:
        if isinstance(d.get("input"), dict) and "ops" in d["input"]:
            seqs.append(d["input"]["ops"])
    nreal = len(seqs)
    n = ctx.n(40, 300) * (8 if broken else 1)
    seqs += [gen_ops(ctx.rng, ctx.n(4, 6), allow_limit=True) for _ in range(n)] + load_corpus()
    # real process exits for the witness / corpus / disagreeing inputs (and a few fresh ones), snapshots for the rest
    nreal += ctx.n(0, 3) * (4 if broken else 1) + (2 if broken else 0)
    res = run_cases([(i, ops, "all") for i, ops in enumerate(seqs[:nreal])])
    res += run_cases([(i, ops, "snap") for i, ops in enumerate(seqs[nreal:])])
    points = 0
    seen = {}
    for r in res:
        points += len(r["results"])
        for f in check_case(r):
            key = f["signature"]
            real = 0 if f["input"]["mode"] != "snap" else 1   # prefer a witness with a real process exit
            size = (real, len(f["input"]["ops"]), f["input"]["k"] if f["input"]["k"] is not None else 10**6)
            if key not in seen or size < seen[key][0]:
                seen[key] = (size, f)
    # configuration + size: the connection's PRAGMAs, and the large journals (real process exits at every boundary)
    mine, _base = connection_pragmas()
    weak = weak_pragmas(mine)
    bigf = []
    for r in run_big(ctx.tier):
        points += len(r["results"])
        bigf += check_big(r, weak)
    for f in bigf:
        key = f["signature"]
        size = (0, f["input"]["big"]["n"] * f["input"]["big"]["pad"], f["input"]["k"] if f["input"]["k"] is not None else 10**6)
        if key not in seen or (key == "C08-pragma-weakens-atomic-commit" and "big" not in seen[key][1]["input"]) or \
                ("big" in seen[key][1]["input"] and size < seen[key][0]):
            seen[key] = (size, f)
    if weak and "C08-pragma-weakens-atomic-commit" not in seen:
        seen["C08-pragma-weakens-atomic-commit"] = ((0, 0, 0), {
            "signature": "C08-pragma-weakens-atomic-commit",
            "what": f"the journal's file connection is configured with {weak}: SQLite then keeps no on-disk rollback "
                    "journal, a process death inside a transaction that spilled pages can leave a half-applied or malformed "
                    "file (not reproduced with the journal sizes of this run)",
            "input": {"pragmas": mine}, "expected": "journal_mode delete / truncate / persist / wal", "observed": mine})
    failures = [v[1] for v in seen.values()]
    ctx.oracle_stats = {"sequences": len(seqs), "with_real_process_exits": nreal, "crash_points": points,
                        "large_journals": [r["scn"]["name"] for r in run_big(ctx.tier)], "connection_pragmas": mine,
                        "failures": len(failures), "searched_harder": bool(broken)}
    return failures


def replay(ctx, rp):
    inp = rp["input"]
    if "pragmas" in inp and "ops" not in inp and "big" not in inp:
        mine, _ = connection_pragmas()
        print("replay: connection pragmas", mine)
        return bool(weak_pragmas(mine))
    if "big" in inp:
        mine, _ = connection_pragmas()
        r = big_case(inp["big"])
        fails = [f for f in check_big(r, weak_pragmas(mine)) if f["input"]["k"] == inp["k"] and f["input"]["mode"] == inp["mode"]]
        print("replay:", inp["big"]["name"], "k =", inp["k"], inp["mode"], "->", [(f["signature"], f["observed"]) for f in fails])
        return any(f["signature"] == rp["signature"] for f in fails)
    pts = [(inp["k"], inp["mode"] if inp["mode"] != "snap" else "before")]
    r = run_cases([(0, inp["ops"], pts)], procs=1)[0]
    fails = check_case(r)
    print("replay:", json.dumps(inp)[:300], "->", [(f["signature"], f["observed"]) for f in fails])
    return any(f["signature"] == rp["signature"] for f in fails)
