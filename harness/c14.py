"""C14 – concurrent senders never corrupt the outbound sequence.  DESIGN.md §6 C14, §5 "Sched".

tie:    Sched model (lean/AsyncFix/Model/Sched*.lean: the connection's coroutines as resumptions + a
        scheduler) ⇄ the REAL coroutines of AsyncFIXConnection driven by hand (`coro.send(None)`, no event
        loop): a fake writer whose `drain()` / `wait_closed()` suspend, application hooks that suspend.  A
        controlled scheduler enumerates schedules (letters `r<i>` = run task i for one segment, `pause` /
        `resume` = transport back-pressure); after EVERY letter the effects of the step (frames at the
        transport in wire order, hook calls, swallowed / escaping exceptions, per task), the whole
        connection state incl. journal rows and stored counters, where every task is suspended, the FIFO of
        drain waiters and the rewind / restore counts are compared with `conc.sched`.
oracle: the property's sentences evaluated on the real coroutines only (wire order, journal, stored
        counter, exceptions); never calls the model.
"""
from __future__ import annotations

import glob
import json
import os
import sys

from . import common as C
from . import sess_common as S

PROP = "C14"
PROPS_MODULES = ["AsyncFix.Props.C14"]
FINDINGS_MODULE = "AsyncFix.Findings.C14"
ASSUMPTIONS = [
    "which of the permitted schedules asyncio actually picks is not modelled: theorem and exploration are over a "
    "SUPERSET (any ready task may run next; a drain() while the transport is not paused is a yield that may be "
    "resumed at any time; every awaited hook may suspend)",
    "real back-pressure is not modelled: `pause` / `resume` letters stand for pause_writing / resume_writing at "
    "arbitrary moments; drain waiters are woken in FIFO order and run in that order (asyncio FlowControlMixin + "
    "FIFO ready queue) – the fake writer of the harness implements exactly this rule",
    "application hooks return normally, do not call back into the connection, and should_replay's answer depends "
    "only on the journal row it is given",
    "tasks: application tasks awaiting send_msg(m) for NEW messages (not SequenceReset, no PossDupFlag=Y) or for "
    "messages of any kind whose text is outside latin-1 (refused); one iteration of heartbeat_timer_task, the reader "
    "task processing ONE decoded frame; no task is cancelled.  Encodable application-sent PossDupFlag=Y / "
    "SequenceReset messages (the application reuses a number on purpose) are compared with the model but are outside "
    "the theorem and the oracle",
    "MULTIPLICITY is covered by correspondence and oracle only: the model has ONE session and its journal; the harness "
    "runs the connection as the first or as the third session of a Journaler shared with an inert session (rows under "
    "the same numbers) and with a second real connection that has tasks of its own – all invisible to the model, so "
    "every step of the neighbour must leave the compared state unchanged, and the oracle requires the other sessions "
    "untouched and judges the neighbour by the same sentences",
    "messages carry plain tags only (no repeating groups), values contain no SOH, numeric header fields are ASCII, "
    "sequence numbers fit SQLite's 64-bit INTEGER; the journal behaves as the abstract store (C13)",
]
MODELLED_NOT_VERIFIED = [
    "C14: transport FAULTS other than a missing writer are outside the model (a resumption has no failing drain / "
    "write / close branch): the k-th write() raising, the k-th drain() raising after its write went out and after "
    "other tasks ran, close() / wait_closed() raising (ConnectionResetError, RuntimeError) are explored by the "
    "implementation-only oracle (reader replies, watchdog probe, senders; clauses: every frame that reached the "
    "transport is journaled under its number, new numbers strictly increasing, stored + 1 = next_num_out > every "
    "number that reached the wire); faults while a ResendRequest is serviced are a non-gating probe (see oracle "
    "statistics: fault_probe_not_gating)",
    "C14: the coroutines are hand-modelled as resumptions (Model/SchedHandlers.lean, same do-blocks as the sequential "
    "session model, `runSeq (hR) = h` proved for every handler); the tie to the real coroutines is the exhaustive "
    "bounded schedule exploration run every check",
]

SIG_D21 = "C14-send-inside-resend-rewind-window"
SIG_NOTRANSPORT = "C14-state-revived-after-concurrent-disconnect"
T0 = S.T0


# ------------------------------------------------------------------------------------------------
# the real coroutines, driven by hand
# ------------------------------------------------------------------------------------------------

class Suspend:
    """an awaitable that suspends the coroutine exactly once; `coro.send(None)` resumes it"""
    __slots__ = ("tag",)

    def __init__(self, tag):
        self.tag = tag

    def __await__(self):
        yield self.tag


FAULT_EXC = {"reset": ConnectionResetError, "runtime": RuntimeError}


class HEvent:
    """hand-driven stand-in for an `asyncio.Event` attribute of the connection (none exists in the unchanged
    tree; a candidate repair that gates senders with an Event can be explored with the same machinery)"""

    def __init__(self):
        self._v = True

    def set(self):
        self._v = True

    def clear(self):
        self._v = False

    def is_set(self):
        return self._v

    async def wait(self):
        while not self._v:
            await Suspend("event")
        return True


class CWriter:
    """fake StreamWriter: write() records the frame; drain() suspends – under back-pressure (`paused`) in
    the FIFO of drain waiters (woken by resume(), run in arrival order), otherwise once"""

    def __init__(self, machine):
        self.m = machine
        self.paused = False
        self.waiters = []  # [task id, woken]
        self.fault = None  # TRANSPORT FAULT: (op, k, exception class) – the k-th call of op raises
        self.calls = {}

    def hit(self, op):
        """is this call of `op` the one that fails"""
        self.calls[op] = self.calls.get(op, 0) + 1
        if self.fault and self.fault[0] == op and self.fault[1] == self.calls[op]:
            self.m.trace.append(("fault", self.m.cur, op))
            return self.fault[2]
        return None

    def write(self, b):
        exc = self.hit("write")
        if exc:
            raise exc("injected: write")  # the frame never reaches the transport
        self.m.eff.append(("W", bytes(b)))
        self.m.on_write(bytes(b))

    async def drain(self):
        exc = self.hit("drain")
        if self.paused:
            w = [self.m.cur, False]
            self.waiters.append(w)
            while not (w[1] and self.waiters[0] is w):
                await Suspend("drain")
            self.waiters.pop(0)
        else:
            await Suspend("drain")
        if exc:
            raise exc("injected: drain")  # AFTER the write went out and after other tasks may have run

    def resume(self):
        self.paused = False
        for w in self.waiters:
            w[1] = True

    def close(self):
        exc = self.hit("close")
        if exc:
            raise exc("injected: close")
        self.m.eff.append(("CS",))

    async def wait_closed(self):
        exc = self.hit("wait_closed")
        await Suspend("waitClosed")
        if exc:
            raise exc("injected: wait_closed")

    def get_extra_info(self, *_):
        return None


class CLog(C.LogBase):
    """logger stand-in.  `exception()` is how the library reports a swallowed exception: inside
    `_process_message` it is the effect C=kind; in the outermost handler of a library task it ends the
    task's iteration (R=kind)."""

    def __init__(self, machine):
        self.m = machine

    def debug(self, *a, **k):
        pass

    info = warning = error = debug

    def exception(self, msg, *a, **k):
        kind = S.exc_kind(sys.exc_info()[0])
        if C.log_origin() == "task":
            raise S._Abort(kind)
        self.m.eff.append(("C", kind))


class NWriter:
    """transport of the neighbour connection: records its frames, drain() suspends once"""

    def __init__(self, machine):
        self.m = machine

    def write(self, b):
        self.m.nb_wire.append(bytes(b))

    async def drain(self):
        await Suspend("drain")

    def close(self):
        pass

    async def wait_closed(self):
        await Suspend("waitClosed")

    def get_extra_info(self, *_):
        return None


class NLog(C.LogBase):
    def __init__(self, machine):
        self.m = machine

    def debug(self, *a, **k):
        pass

    info = warning = error = debug

    def exception(self, msg, *a, **k):
        self.m.nb_exc.append(("C", S.exc_kind(sys.exc_info()[0])))


def _nconn_class():
    import asyncfix.connection as cm

    class NConn(cm.AsyncFIXConnection):
        """the neighbour: a second real connection on the SAME Journaler (hooks do nothing and never suspend)"""

        async def on_message(self, msg):
            pass

        async def on_connect(self):
            pass

    return NConn


def NConn(*a, **k):
    return _nconn_class()(*a, **k)


NB_STATE = S.with_journal(S.AbsConn(state=17, role=1, was_active=True, sender="S2", target="T2", next_in=5, next_out=7,
                                    sock=True, last_time=S.T0 - 1000), "app")


class Machine(S.Impl):
    """ONE real AsyncFIXConnection whose hooks / transport suspend; tasks are real coroutine objects."""

    def __init__(self):
        super().__init__()
        m = self
        eff = self.eff

        class CConn(self.Conn):
            async def on_message(self, msg):
                eff.append(("D", msg))
                await Suspend("onMessage")

            async def on_disconnect(self):
                eff.append(("DC",))
                await Suspend("onDisconnect")

            async def on_logon(self, healthy):
                eff.append(("L", bool(healthy)))
                await Suspend("onLogon")

            async def on_logout(self, msg):
                eff.append(("LO", msg))
                await Suspend("onLogout")

            async def on_state_change(self, s):
                eff.append(("S", int(s)))
                if int(s) > 3 and self._socket_writer is None:
                    m.trace.append(("revived", m.cur, int(s)))
                await Suspend("onStateChange")

            async def should_replay(self, msg):
                await Suspend("shouldReplay")
                if m.declined is None:
                    return True
                if m.declined == "none":
                    return False
                try:
                    return int(msg[34]) not in m.declined
                except Exception:
                    return True

        self.conn.__class__ = CConn
        self.Conn = CConn
        import asyncio as _aio
        self.events = [k for k, v in vars(self.conn).items() if isinstance(v, _aio.Event)]
        self.clog = CLog(self)
        self.conn.log = self.clog
        self.cwriter = CWriter(self)
        self.writer = self.cwriter  # load() installs self.writer
        self.cur = None
        self.coros, self.status, self.task_defs = [], [], []
        # MULTIPLICITY: the journal holds three sessions.  Key 1 was created by the connection above; key 2
        # belongs to a second real connection (the neighbour, its own transport and tasks); key 3 is inert.
        # start(key=…) lets the connection under test own key 1 or key 3; the other one keeps rows with the
        # SAME numbers.  Nothing of this is visible in the model: other sessions must be untouched.
        self.main_keys = (self.key, None)
        self.nb = NConn(self.conn.protocol, "S2", "T2", self.journal, "h", 1, 30, logger=NLog(self))
        self.nb_key = self.nb._session.key
        third = self.journal.create_or_load("T3", "S3")
        self.main_keys = (self.key, third.key)
        self.nb_writer = NWriter(self)
        self.nb_wire, self.nb_exc, self.nb_tasks, self.nmain = [], [], [], 0
        self.inert_snapshot = None
        self.opened = self.closed = 0
        self.set_calls = {}
        self.trace = []  # oracle instrumentation: (kind, task, data)
        # instrumentation (observation only): outbound set_seq_num calls = the ghost marks; allocations
        real_set = self.journal.set_seq_num

        def set_seq_num(session, next_num_out=None, next_num_in=None):
            if next_num_out is not None and session is m.conn._session:
                k = m.set_calls.get(m.cur, 0)
                m.set_calls[m.cur] = k + 1
                if k % 2 == 0:
                    m.opened += 1
                    m.trace.append(("rewind", m.cur, next_num_out))
                else:
                    m.closed += 1
                    m.trace.append(("restore", m.cur, next_num_out))
            return real_set(session, next_num_out=next_num_out, next_num_in=next_num_in)

        self.journal.set_seq_num = set_seq_num
        sess = self.conn._session
        real_alloc = sess.allocate_next_num_out

        def allocate_next_num_out():
            n = real_alloc()
            m.trace.append(("alloc", m.cur, n, m.opened > m.closed))
            return n

        sess.allocate_next_num_out = allocate_next_num_out

        # a library coroutine that spawns a task (none does in the unchanged tree): the spawned coroutine
        # becomes one more hand-driven task of the controlled scheduler
        def spawn(coro, **_kw):
            m.coros.append(coro)
            m.status.append("new")
            m.task_defs.append(("spawned", m.now_ms))
            return coro

        self.cm.asyncio.ensure_future = spawn
        self.cm.asyncio.create_task = spawn

        async def _sleep(d):
            if d:
                raise S._Done()  # the `await asyncio.sleep(1)` that ends an iteration of a library task
            await Suspend("sleep")  # a bare `sleep(0)` yields to the event loop

        self.cm.asyncio.sleep = _sleep

    def on_write(self, b):
        self.trace.append(("write", self.cur, b))

    # ---- set-up -----------------------------------------------------------------------------
    def start(self, a: S.AbsConn, sr: str, paused: bool, tasks, opts=None):
        """load the abstract state and create one fresh coroutine per task (nothing runs yet).
        opts: {"key": 1 | 3 (which session of the shared journal the connection owns), "nb": neighbour tasks}"""
        opts = opts or {}
        self.finish()
        self.cwriter.paused = paused
        self.cwriter.waiters = []
        self.cwriter.calls = {}
        f = opts.get("fault")
        self.cwriter.fault = (f[0], int(f[1]), FAULT_EXC[f[2]]) if f else None
        self.select_key(opts.get("key", 1))
        self.load(a)
        self.load_others(a)
        self.declined = None if sr == "all" else ("none" if sr == "none" else {int(x) for x in sr[1:].split(",")})
        self.opened = self.closed = 0
        self.set_calls = {}
        self.trace = []
        self.task_defs = list(tasks)
        self.coros, self.status = [], []
        c = self.conn
        for t in tasks:
            if t[0] == "send":
                mtype, tags = t[2]
                try:
                    mt = self.FMsg(mtype)
                except ValueError:
                    mt = mtype
                msg = self.FIXMessage(mt)
                for tg, v in tags:
                    msg.set(tg, v)
                co = c.send_msg(msg)
            elif t[0] == "tick":
                co = c.heartbeat_timer_task()
            elif t[0] == "recv":
                msg, raw = self.make_msg(t[2])
                co = c._process_message(msg, raw)
            else:
                raise ValueError(t)
            self.coros.append(co)
            self.status.append("new")
        self.nmain = len(self.coros)
        # the neighbour connection's tasks: scheduled by the same letters, invisible to the model
        self.nb_tasks = list(opts.get("nb", []))
        for t in self.nb_tasks:
            if t[0] == "send":
                mtype, tags = t[2]
                msg = self.FIXMessage(self.FMsg(mtype) if mtype in [x.value for x in self.FMsg] else mtype)
                for tg, v in tags:
                    msg.set(tg, v)
                co = self.nb.send_msg(msg)
            elif t[0] == "recv":
                msg, raw = self.make_msg(t[2])
                co = self.nb._process_message(msg, raw)
            elif t[0] == "reset":
                co = self.nb.reset_seq_num()
            else:
                raise ValueError(t)
            self.coros.append(co)
            self.status.append("new")
            self.task_defs.append(("nb-" + t[0], t[1]))

    # ---- the other sessions of the journal ----------------------------------------------------
    def select_key(self, key):
        k1, k3 = self.main_keys
        main = k3 if key == 3 else k1
        other = k1 if key == 3 else k3
        cur = self.journal.cursor
        cur.execute("UPDATE session SET targetCompId=?, senderCompId=? WHERE sessionId=?", ("T3", "S3x", other))
        cur.execute("UPDATE session SET targetCompId=?, senderCompId=? WHERE sessionId=?", ("Tm", "Sm", main))
        cur.execute("UPDATE session SET targetCompId=?, senderCompId=? WHERE sessionId=?", ("T3", "S3", other))
        self.journal.conn.commit()
        self.key = main
        self.inert_key = other
        self.conn._session.key = main

    def load_others(self, a):
        """inert session: rows under the SAME numbers as the connection's (and one at its next numbers);
        neighbour connection: established session with its own journal rows 3..6"""
        cur = self.journal.cursor
        OUT, INB = self.MD.OUTBOUND.value, self.MD.INBOUND.value
        rows = [(seq, OUT, S.fields_to_bytes(fs)) for seq, (_, fs) in a.out_rows]
        rows += [(seq, INB, S.fields_to_bytes(fs)) for seq, (_, fs) in a.in_rows]
        rows += [(a.next_out, OUT, b"8=FIX.4.4\x019=5\x0135=0\x0134=%d\x0110=000\x01" % a.next_out),
                 (a.next_in, INB, b"8=FIX.4.4\x019=5\x0135=0\x0134=%d\x0110=000\x01" % a.next_in)]
        for seq, d, raw in rows:
            cur.execute("INSERT OR REPLACE INTO message VALUES(?, ?, ?, ?)", (seq, self.inert_key, d, raw))
        cur.execute("UPDATE session SET outboundSeqNo=?, inboundSeqNo=? WHERE sessionId=?",
                    (a.next_out, a.next_in, self.inert_key))
        nb, a2 = self.nb, NB_STATE
        nb._connection_state = self.CS(a2.state)
        nb._connection_role = self.CR(a2.role)
        nb._connection_was_active = True
        nb._session.next_num_in, nb._session.next_num_out = a2.next_in, a2.next_out
        nb._max_seq_num_resend, nb._test_req_id, nb._message_last_time = 0, None, (T0 - 1000) / 1000
        nb._socket_writer, nb._socket_reader, nb._msg_buffer = self.nb_writer, object(), b""
        cur.execute("UPDATE session SET outboundSeqNo=?, inboundSeqNo=? WHERE sessionId=?",
                    (a2.stored_out, a2.stored_in, self.nb_key))
        for rws, d in ((a2.out_rows, OUT), (a2.in_rows, INB)):
            for seq, (_, fs) in rws:
                cur.execute("INSERT INTO message VALUES(?, ?, ?, ?)", (seq, self.nb_key, d, S.fields_to_bytes(fs)))
        self.journal.conn.commit()
        self.nb_wire, self.nb_exc = [], []
        self.inert_snapshot = self.session_image(self.inert_key)
        self.nb_snapshot = self.session_image(self.nb_key)

    def session_image(self, key):
        cur = self.journal.cursor
        cur.execute("SELECT outboundSeqNo, inboundSeqNo FROM session WHERE sessionId=?", (key,))
        cnt = tuple(next(cur))
        cur.execute("SELECT seqNo, direction, msg FROM message WHERE session=? ORDER BY direction, seqNo", (key,))
        return (cnt, tuple((r[0], r[1], bytes(r[2]) if not isinstance(r[2], str) else r[2].encode("latin-1")) for r in cur))

    def nb_post(self) -> S.AbsConn:
        """the neighbour's outbound side as the oracle's sentences need it"""
        (so, si), rows = self.session_image(self.nb_key)
        OUT = self.MD.OUTBOUND.value
        out_rows = [(seq, (None, S.bytes_to_fields(raw))) for seq, d, raw in rows if d == OUT]
        return S.AbsConn(next_out=self.nb._session.next_num_out, stored_out=so, stored_in=si, out_rows=out_rows)

    def finish(self):
        """drop coroutines that are still suspended (their `finally` blocks may await: ignore)"""
        for co, st in zip(self.coros, self.status):
            if st != "fin":
                try:
                    co.close()
                except BaseException:
                    pass
        self.coros, self.status = [], []

    # ---- scheduler ----------------------------------------------------------------------------
    def queued(self, i):
        return any(w[0] == i for w in self.cwriter.waiters)

    def enabled(self, letter):
        w = self.cwriter
        if letter == "pause":
            return not w.paused
        if letter == "resume":
            return w.paused
        i = int(letter[1:])
        if i >= len(self.status) or self.status[i] == "fin":
            return False
        if self.status[i] == "event" and not all(getattr(self.conn, k).is_set() for k in self.events):
            return False
        return (not self.queued(i)) or (w.waiters[0][0] == i and w.waiters[0][1])

    def letters(self):
        return [f"r{i}" for i in range(len(self.coros))] + ["pause", "resume"]

    def step(self, letter):
        """apply one letter; returns the record of the step (same text as the model's record)"""
        n0 = len(self.eff)
        w = self.cwriter
        if letter == "pause":
            w.paused = True
        elif letter == "resume":
            w.resume()
        else:
            i = int(letter[1:])
            if i < len(self.coros) and self.status[i] != "fin":
                self.cur = i
                self.now_ms = self.task_defs[i][1]
                nb = self.task_defs[i][0].startswith("nb-")
                try:
                    self.status[i] = self.coros[i].send(None)
                except StopIteration:
                    self.status[i] = "fin"
                except S._Done:
                    self.status[i] = "fin"
                except S._Abort as ab:
                    self.eff.append(("R", ab.kind))
                    self.status[i] = "fin"
                except Exception as e:
                    (self.nb_exc if nb else self.eff).append(("R", S.exc_kind(e)))
                    self.status[i] = "fin"
                self.owner += [i] * (len(self.eff) - len(self.owner))
                self.cur = None
        return self.record(n0)

    def load(self, a):
        super().load(a)
        self.owner = []
        for k in self.events:
            setattr(self.conn, k, HEvent())

    def record(self, n0):
        toks = self.effects()
        new = [f"{self.owner[k]}:{toks[k]}" for k in range(n0, len(toks))]
        w = self.cwriter
        q = ",".join(f"{i}{'+' if wk else '-'}" for i, wk in w.waiters) or "-"
        shown = [st for st, d in zip(self.status, self.task_defs) if not d[0].startswith("nb-")]
        return (";".join(new) if new else "-") + " # " + self.dump() + " # " + ",".join(shown) + " # " + \
            f"{1 if w.paused else 0} {q} {self.opened} {self.closed}"

    def all_done(self):
        return all(s == "fin" for s in self.status)


def scn_opts(scn):
    return scn[5] if len(scn) > 5 else {}


def task_tokens(t) -> str:
    if t[0] in ("tick", "reset"):
        return f"{t[0]} {t[1]} {S.stok(S.stamp(t[1]))}"
    return f"{t[0]} {t[1]} {S.stok(S.stamp(t[1]))} {S.msg_tok(t[2])}"


def sched_line(a: S.AbsConn, sr, paused, tasks, letters) -> str:
    return (f"conc.sched {sr} {1 if paused else 0} {a.tokens()} " + " ".join("T " + task_tokens(t) for t in tasks)
            + " S " + " ".join(letters))


# ------------------------------------------------------------------------------------------------
# scenarios
# ------------------------------------------------------------------------------------------------

def active(role=1, ni=5, no=7, shape="app", state=17, **kw) -> S.AbsConn:
    a = S.AbsConn(state=state, role=role, was_active=True, next_in=ni, next_out=no, sock=True, last_time=T0 - 1000)
    for k, v in kw.items():
        setattr(a, k, v)
    return S.with_journal(a, shape)


def fresh_net(role) -> S.AbsConn:
    """transport just connected (NETWORK_CONN_ESTABLISHED), nothing sent yet"""
    a = S.AbsConn(state=6, role=role, was_active=False, next_in=1, next_out=1, sock=True, last_time=0)
    return S.with_journal(a, "empty")


APP = lambda text: ("D", [(11, "c-" + text), (58, text)])  # noqa: E731
LOGON = ("A", [(98, "0"), (108, "30")])


def rx(a, mtype, body, seq="auto", now=T0, **kw):
    return ("recv", now, S.inbound(a, mtype, body, seq=seq, now_ms=now, **kw))


def scenarios(tier="quick"):
    """(name, AbsConn, sr, tasks, max transport toggles).  Every scenario runs with the transport initially
    not paused and initially paused."""
    out = []

    def add(name, a, tasks, sr="all", toggles=1, **opts):
        out.append((name, a, sr, tasks, toggles, opts))

    a = active()
    # ---- two senders
    add("2send:app+app", a, [("send", T0, APP("a")), ("send", T0 + 125, APP("b"))], toggles=2)
    add("2send:app+nonlatin1", a, [("send", T0, APP("a")), ("send", T0 + 125, ("D", [(58, "€ uro")]))])
    add("2send:app+testreq-noid", a, [("send", T0, APP("a")), ("send", T0 + 125, ("1", [(112, "9")]))])
    add("2send:ahead-journal", active(shape="ahead"), [("send", T0, APP("a")), ("send", T0 + 125, APP("b"))])
    add("2send:logon+logon(initiator)", fresh_net(1), [("send", T0, LOGON), ("send", T0 + 125, LOGON)])
    add("2send:logon+app(role unknown)", fresh_net(0), [("send", T0, LOGON), ("send", T0 + 125, APP("early"))])
    add("2send:logon-nonlatin1+app(role unknown)", fresh_net(0),
        [("send", T0, ("A", [(98, "0"), (108, "30"), (58, "€")])), ("send", T0 + 125, APP("early"))])
    add("2send:logon-nonlatin1+logout(initiator)", fresh_net(1),
        [("send", T0, ("A", [(98, "0"), (108, "30"), (58, "€")])), ("send", T0 + 125, ("5", []))])
    add("2send:big-counters", active(ni=2**32 + 3, no=2**33 + 1), [("send", T0, APP("a")), ("send", T0 + 125, APP("b"))])
    # ---- sender + watchdog tick
    add("send+tick:testrequest", active(last_time=T0 - 30000), [("send", T0, APP("a")), ("tick", T0)], toggles=2)
    add("send+tick:silence-disconnect", active(state=12, max_resend=9, last_time=T0 - 61000),
        [("send", T0, APP("a")), ("tick", T0)])
    add("send+tick:testreq-timeout", active(test_req_id=T0 // 1000 - 61, last_time=T0 - 61000), [("send", T0, APP("a")), ("tick", T0)])
    add("send+tick:idle", active(), [("send", T0, APP("a")), ("tick", T0)])
    # ---- sender + reader, one inbound frame of each class
    acc = fresh_net(2)
    add("send+recv:logon(acceptor)", acc, [("send", T0 + 125, APP("early")), rx(acc, "A", [(98, "0"), (108, "30")])])
    add("send+recv:logon-high(acceptor)", acc,
        [("send", T0 + 125, APP("early")), rx(acc, "A", [(98, "0"), (108, "30")], seq=3)])
    ini = S.with_journal(S.AbsConn(state=7, role=1, next_in=1, next_out=2, sock=True), "app")
    add("send+recv:logon-reply(initiator)", ini, [("send", T0 + 125, APP("early")), rx(ini, "A", [(98, "0"), (108, "30")])])
    add("send+recv:testrequest", a, [("send", T0 + 125, APP("a")), rx(a, "1", [(112, "TEST1")])], toggles=2)
    for k in (1, 2, 3):
        add(f"send+recv:resend-{k}", a, [("send", T0 + 125, APP("conc")), rx(a, "2", [(7, str(a.next_out - k)), (16, "0")])],
            toggles=1 if k < 3 else 0)
    add("send+recv:resend-declined", a, [("send", T0 + 125, APP("conc")), rx(a, "2", [(7, "4"), (16, "0")])], sr="d5", toggles=0)
    mixed = active(shape="mixed")
    add("send+recv:resend-mixed", mixed, [("send", T0 + 125, APP("conc")), rx(mixed, "2", [(7, "3"), (16, "0")])], toggles=0)
    sess = active(shape="sess")
    add("send+recv:resend-session-rows", sess, [("send", T0 + 125, APP("conc")), rx(sess, "2", [(7, "3"), (16, "0")])])
    add("send+recv:resend-bounded", a, [("send", T0 + 125, APP("conc")), rx(a, "2", [(7, "4"), (16, "5")])], toggles=0)
    add("send+recv:resend-inverted", a, [("send", T0 + 125, APP("conc")), rx(a, "2", [(7, "5"), (16, "4")])])
    add("send+recv:resend-beyond", a, [("send", T0 + 125, APP("conc")), rx(a, "2", [(7, "9"), (16, "0")])])
    aw = active(state=12, max_resend=9)
    add("send+recv:resend-while-awaiting", aw, [("send", T0 + 125, APP("conc")), rx(aw, "2", [(7, "6"), (16, "0")], seq=5)])
    add("send+recv:high-seqnum", a, [("send", T0 + 125, APP("a")), rx(a, "D", [(11, "gap")], seq=a.next_in + 2)])
    add("send+recv:app", a, [("send", T0 + 125, APP("a")), rx(a, "D", [(11, "in"), (58, "x")])])
    add("send+recv:heartbeat", a, [("send", T0 + 125, APP("a")), rx(a, "0", [])])
    add("send+recv:logout", a, [("send", T0 + 125, APP("a")), rx(a, "5", [(58, "bye")])])
    add("send+recv:gapfill", a, [("send", T0 + 125, APP("a")), rx(a, "4", [(123, "Y"), (36, str(a.next_in + 3))])])
    add("send+recv:seqreset", a, [("send", T0 + 125, APP("a")), rx(a, "4", [(36, str(a.next_in + 5))])])
    add("send+recv:compid-mismatch", a, [("send", T0 + 125, APP("a")), rx(a, "D", [(58, "x")], target="WRONG")])
    hb = active(test_req_id=T0 // 1000 - 5)
    add("send+recv:heartbeat-wrongid", hb, [("send", T0 + 125, APP("a")), rx(hb, "0", [(112, "77")])])
    # ---- the reader's ResendRequest reply is the LAST outbound activity (no sender repairs the store afterwards):
    #      reply ending in a multi-number GapFill (session-level rows / holes / declined), in a retransmission,
    #      bounded; alone, next to an idle watchdog, next to a sender that is refused
    refused = ("send", T0 + 125, ("1", [(112, "9")]))  # TestRequest outside send_test_req(): FIXConnectionError
    for shape, begin in (("sess", "3"), ("mixed", "3"), ("holes", "3"), ("app", "4"), ("resent", "3")):
        j = active(shape=shape)
        add(f"recv:resend-last({shape})", j, [rx(j, "2", [(7, begin), (16, "0")])], toggles=1)
        add(f"recv+tick:resend-last({shape})", j, [rx(j, "2", [(7, begin), (16, "0")]), ("tick", T0)], toggles=0)
        add(f"send+recv:resend-last({shape})+refused", j, [refused, rx(j, "2", [(7, begin), (16, "0")])], toggles=0)
    add("recv:resend-last(declined)", a, [rx(a, "2", [(7, "3"), (16, "0")])], sr="d5,6", toggles=1)
    add("recv:resend-last(all declined)", a, [rx(a, "2", [(7, "4"), (16, "0")])], sr="none", toggles=1)
    add("recv:resend-last(bounded)", sess, [rx(sess, "2", [(7, "3"), (16, "4")])], toggles=1)
    aws = active(state=12, max_resend=9, shape="sess")
    add("recv:resend-last(while awaiting)", aws, [rx(aws, "2", [(7, "3"), (16, "0")], seq=5)], toggles=1)
    # ---- VALUES in sender tasks: refused sends (text outside latin-1, missing / garbled own number) of messages
    #      that carry their OWN number, next to an ordinary send; encodable own-numbered ones (model only)
    EUR = "\u20ac"
    own = [("possdup-nonlatin1", ("D", [(11, "c"), (43, "Y"), (34, "3"), (58, EUR)])),
           ("seqreset-nonlatin1", ("4", [(34, "3"), (36, "9"), (58, EUR)])),
           ("gapfill-nonlatin1", ("4", [(123, "Y"), (34, "4"), (36, "6"), (58, "x" + EUR)])),
           ("possdup-no34-nonlatin1", ("D", [(11, "c"), (43, "Y"), (58, EUR)])),
           ("possdup-no34", ("D", [(11, "c"), (43, "Y")])),
           ("seqreset-34garbled", ("4", [(34, "zz"), (36, "9")])),
           ("possdup-own-number", ("D", [(11, "c"), (43, "Y"), (34, "3")])),
           ("seqreset-own-number", ("4", [(34, "9"), (36, "12")]))]
    for lab, msg in own:
        add(f"2send:{lab}+app", a, [("send", T0, msg), ("send", T0 + 125, APP("next"))], toggles=0, one=True)
    add("2send:nonlatin1-x2", a, [("send", T0, ("D", [(58, EUR)])), ("send", T0 + 125, ("D", [(58, "\u4e2d")]))], toggles=0)
    add("send+recv:possdup-nonlatin1+testrequest", a, [("send", T0, own[0][1]), rx(a, "1", [(112, "T")])], toggles=0)
    # ---- the watchdog tick in EVERY connected state with its elapsed-time preconditions satisfied
    #      (probe due: silence > hb-1; dead: silence > 2hb; TestRequest overdue), next to a sender
    for st in (6, 7, 10, 11, 12, 17):
        for lab, kw in (("probe-due", dict(last_time=T0 - 30000)), ("silent", dict(last_time=T0 - 61000)),
                        ("testreq-overdue", dict(last_time=T0 - 61000, test_req_id=T0 // 1000 - 61)),
                        ("testreq-pending", dict(last_time=T0 - 30000, test_req_id=T0 // 1000 - 5))):
            j = active(state=st, max_resend=9 if st == 12 else 0, **kw)
            add(f"tick+send:state{st}:{lab}", j, [("tick", T0), ("send", T0 + 125, APP("a"))], toggles=0, one=True)
    down = S.with_journal(S.AbsConn(state=3, role=1, was_active=True, next_in=5, next_out=7, sock=False,
                                    last_time=T0 - 61000), "app")
    add("tick+send:disconnected", down, [("tick", T0), ("send", T0 + 125, APP("late"))], toggles=0)
    # the probe is due while the reader services a ResendRequest (state RESENDREQ_HANDLING / _AWAITING)
    due = active(last_time=T0 - 30000)
    add("recv+tick:resend-2(probe due)", due, [rx(due, "2", [(7, "5"), (16, "0")]), ("tick", T0)], toggles=1)
    due12 = active(state=12, max_resend=9, last_time=T0 - 30000)
    add("recv+tick:resend-2(probe due, awaiting)", due12, [rx(due12, "2", [(7, "5"), (16, "0")], seq=5), ("tick", T0)])
    # ---- writer None in a connected state (the model's AttributeError branch), compared with the model only
    nosock = active(sock=False)
    add("2send:no-transport", nosock, [("send", T0, APP("a")), ("send", T0 + 125, APP("b"))], toggles=0, one=True)
    add("send+recv:testrequest(no transport)", nosock, [("send", T0 + 125, APP("a")), rx(nosock, "1", [(112, "T")])],
        toggles=0, one=True)
    add("tick+send:probe-due(no transport)", active(sock=False, last_time=T0 - 30000),
        [("tick", T0), ("send", T0 + 125, APP("a"))], toggles=0, one=True)
    # ---- CONFIGURATION: the acceptor side
    acc2 = active(role=2)
    add("send+recv:resend-2(acceptor)", acc2, [("send", T0 + 125, APP("conc")), rx(acc2, "2", [(7, "5"), (16, "0")])], toggles=0)
    add("recv:resend-last(sess, acceptor)", active(role=2, shape="sess"),
        [rx(acc2, "2", [(7, "3"), (16, "0")])], toggles=1)
    # ---- MULTIPLICITY: a second real connection on the SAME Journaler with tasks of its own
    nb_rr = ("recv", T0, S.inbound(NB_STATE, "2", [(7, "5"), (16, "0")], now_ms=T0))
    nb_send = ("send", T0 + 250, APP("nb"))
    add("nb:2send|send", a, [("send", T0, APP("a")), ("send", T0 + 125, APP("b"))], toggles=0, nb=[nb_send], bound=4)
    add("nb:send|resend", a, [("send", T0, APP("a"))], toggles=0, nb=[nb_rr], bound=4)
    add("nb:resend-2|send", a, [rx(a, "2", [(7, "5"), (16, "0")])], toggles=0, nb=[nb_send], bound=4)
    add("nb:resend-last(sess)|resend", sess, [rx(sess, "2", [(7, "3"), (16, "0")])], toggles=0, nb=[nb_rr], bound=4)
    add("nb:send|reset_seq_num", a, [("send", T0, APP("a"))], toggles=0, nb=[("reset", T0)], bound=4)
    add("nb:send+tick|send+send", active(last_time=T0 - 30000), [("send", T0, APP("a")), ("tick", T0)], toggles=0,
        nb=[nb_send, ("send", T0 + 375, APP("nb2"))], bound=3)
    # ---- reader + tick (the connection is torn down under the reader)
    add("recv+tick:logon-high+testreq-timeout", S.with_journal(S.AbsConn(
        state=6, role=2, next_in=1, next_out=1, sock=True, test_req_id=T0 // 1000 - 61, last_time=0), "empty"),
        [rx(acc, "A", [(98, "0"), (108, "30")], seq=3), ("tick", T0)], toggles=0)
    if tier == "thorough":
        t3 = [("send", T0 + 125, APP("a")), ("send", T0 + 250, APP("b"))]
        add("3:send+send+send", a, t3 + [("send", T0 + 375, APP("c"))], toggles=2)
        add("3:send+send+tick", active(last_time=T0 - 30000), t3 + [("tick", T0)], toggles=2)
        add("3:send+send+testrequest", a, t3 + [rx(a, "1", [(112, "T")])], toggles=2)
        add("3:send+send+resend-2", a, t3 + [rx(a, "2", [(7, "5"), (16, "0")])], toggles=1)
        add("3:send+send+resend-3", a, t3 + [rx(a, "2", [(7, "4"), (16, "0")])], toggles=0)
        add("3:send+tick+resend-2", active(last_time=T0 - 30000),
            [("send", T0 + 125, APP("a")), ("tick", T0), rx(a, "2", [(7, "5"), (16, "0")])], toggles=1)
        add("3:send+tick+logon", S.with_journal(S.AbsConn(
            state=6, role=2, next_in=1, next_out=1, sock=True, test_req_id=T0 // 1000 - 61, last_time=0), "empty"),
            [("send", T0 + 125, APP("late")), ("tick", T0), rx(acc, "A", [(98, "0"), (108, "30")], seq=3)], toggles=0)
        add("3:send+tick+high-seqnum", active(last_time=T0 - 30000),
            [("send", T0 + 125, APP("a")), ("tick", T0), rx(a, "D", [(11, "gap")], seq=a.next_in + 2)], toggles=1)
        add("3:send+send+logout", a, t3 + [rx(a, "5", [])], toggles=1)
        add("3:send+tick+app", active(last_time=T0 - 30000),
            [("send", T0 + 125, APP("a")), ("tick", T0), rx(a, "D", [(11, "in")])], toggles=1)
        add("3:send+send+resend-mixed", mixed, t3 + [rx(mixed, "2", [(7, "3"), (16, "0")])], toggles=0)
    return out


# ------------------------------------------------------------------------------------------------
# controlled scheduler: enumeration of schedules
# ------------------------------------------------------------------------------------------------

def options(m: Machine, toggles_left: int):
    """enabled letters at this node: every runnable task; a transport letter while the budget lasts;
    `resume` always when nothing else can move"""
    runs = [l for l in m.letters() if l[0] == "r" and m.enabled(l)]
    opts = list(runs)
    if toggles_left > 0 and not m.all_done():
        opts.append("resume" if m.cwriter.paused else "pause")
    elif not runs and m.cwriter.paused and not m.all_done():
        opts.append("resume")
    return opts


def explore(m: Machine, scn, paused, bound, visited=None, max_paths=None, on_path=None):
    """Depth-first enumeration by re-execution.  Branches over ALL options at the first `bound` nodes that offer
    a choice, then completes with the first option.  With `visited` (a set) a node whose abstract state was seen
    before is not expanded again (state hashing).  Calls on_path(letters, records, complete)."""
    name, a, sr, tasks, toggles = scn[:5]
    stack = [[]]
    npaths = 0
    while stack:
        forced = stack.pop()
        m.start(a, sr, paused, tasks, scn_opts(scn))
        letters, recs = [], []
        used = 0
        choices = 0
        complete = True
        progress = [0] * len(m.coros)
        while True:
            if len(letters) < len(forced):
                l = forced[len(letters)]
                opts = options(m, toggles - used)
                if len(opts) > 1:
                    choices += 1
            else:
                opts = options(m, toggles - used)
                if not opts:
                    break
                if visited is not None and letters:
                    key = (recs[-1].split(" # ", 1)[1], tuple(progress))
                    if key in visited:
                        complete = False
                        break
                    visited.add(key)
                l = opts[0]
                if len(opts) > 1:
                    if choices < bound:
                        for alt in opts[1:]:
                            stack.append(letters + [alt])
                    choices += 1
            if l in ("pause", "resume"):
                used += 1
            else:
                while len(progress) <= int(l[1:]):
                    progress.append(0)
                progress[int(l[1:])] += 1
            recs.append(m.step(l))
            letters.append(l)
        npaths += 1
        if on_path:
            on_path(letters, recs, complete)
        if max_paths and npaths >= max_paths:
            break
    m.finish()
    return npaths


# ------------------------------------------------------------------------------------------------
# correspondence
# ------------------------------------------------------------------------------------------------

def corpus_entries():
    out = []
    for path in sorted(glob.glob(os.path.join(C.VERIF, "corpus", "sched", "*.json"))):
        with open(path) as f:
            for e in json.load(f):
                out.append(e)
    return out


def entry_scn(e):
    """corpus / replay entry → (scenario tuple, paused, letters)"""
    a = S.parse_conn_tokens(e["conn"])
    tasks = [parse_task(t) for t in e["tasks"]]
    opts = {"key": e.get("key", 1), "nb": [parse_task(t) for t in e.get("nb", [])]}
    if e.get("fault"):
        opts["fault"] = tuple(e["fault"])
    return (e.get("label", "corpus"), a, e["sr"], tasks, 99, opts), bool(e["paused"]), list(e["letters"])


def parse_task(text):
    t = text.split(" ")
    if t[0] in ("tick", "reset"):
        return (t[0], int(t[1]))
    return (t[0], int(t[1]), S.parse_msg_tok(t[3]))


def make_entry(scn, paused, letters, label=None):
    name, a, sr, tasks, _ = scn[:5]
    o = scn_opts(scn)
    return {"label": label or name, "conn": a.tokens(), "sr": sr, "paused": 1 if paused else 0,
            "tasks": [task_tokens(t) for t in tasks], "letters": list(letters),
            "key": o.get("key", 1), "nb": [task_tokens(t) for t in o.get("nb", [])],
            "fault": list(o["fault"]) if o.get("fault") else None}


def run_letters(m: Machine, scn, paused, letters):
    name, a, sr, tasks, _ = scn[:5]
    m.start(a, sr, paused, tasks, scn_opts(scn))
    return [m.step(l) for l in letters]


class Comparer:
    """collects (scenario, schedule, implementation records), asks the model in batches, diffs per step"""

    def __init__(self, stats):
        self.pending = []
        self.dis = []
        self.stats = stats
        self.drv = C.Driver()
        self.evals = 0
        self.shapes = set()
        self.samples = []

    def add(self, scn, paused, letters, recs):
        self.pending.append((scn, paused, list(letters), list(recs)))
        if len(self.pending) >= 1500:
            self.flush()

    def flush(self):
        if not self.pending:
            return
        lines = [sched_line(p[0][1], p[0][2], p[1], p[0][3], p[2]) for p in self.pending]
        replies = self.drv.batch(lines)
        for (scn, paused, letters, recs), rep in zip(self.pending, replies):
            model = rep.split(" | ") if letters else []
            self.evals += len(letters)
            st = self.stats
            st["schedules"] = st.get("schedules", 0) + 1
            fam = scn[0].split(":")[0]
            st.setdefault("family", {})
            st["family"][fam] = st["family"].get(fam, 0) + 1
            st.setdefault("length", {})
            b = f"{len(letters) // 4 * 4}-{len(letters) // 4 * 4 + 3}"
            st["length"][b] = st["length"].get(b, 0) + 1
            shape = []
            for r in recs:
                eff, _conn, states, tail = r.split(" # ")
                kinds = tuple(x.split(":", 1)[1].split("=")[0] for x in eff.split(";")) if eff != "-" else ()
                shape.append((kinds, states))
                for k in kinds:
                    st.setdefault("effect", {})
                    st["effect"][k] = st["effect"].get(k, 0) + 1
                    if k in ("C", "R"):
                        ek = [x.split(":", 1)[1] for x in eff.split(";") if x.split(":", 1)[1].startswith(k + "=")][0]
                        st.setdefault("exception", {})
                        st["exception"][ek] = st["exception"].get(ek, 0) + 1
                for pt in states.split(","):
                    st.setdefault("suspended_at", {})
                    st["suspended_at"][pt] = st["suspended_at"].get(pt, 0) + 1
            if recs:
                tail = recs[-1].split(" # ")[3].split(" ")
                if int(tail[2]) > 0:
                    st["with_rewind"] = st.get("with_rewind", 0) + 1
                # a window that opens is open at the end of that step (never rewind + restore in one segment)
                po = pc = 0
                for r in recs:
                    t = r.split(" # ")[3].split(" ")
                    o, c_ = int(t[2]), int(t[3])
                    if o > po and c_ > pc:
                        st["rewind_and_restore_in_one_step"] = st.get("rewind_and_restore_in_one_step", 0) + 1
                    po, pc = o, c_
                st.setdefault("rewind_and_restore_in_one_step", 0)
            self.shapes.add((scn[0], tuple(shape)))
            if len(self.samples) < 4 and len(letters) > 5 and st["schedules"] % 700 == 1:
                self.samples.append({"scenario": scn[0], "paused": paused, "letters": " ".join(letters),
                                     "last_record": recs[-1][:300]})
            if model != recs:
                k = next((i for i in range(min(len(model), len(recs))) if model[i] != recs[i]), min(len(model), len(recs)))
                self.dis.append({"input": make_entry(scn, paused, letters[: k + 1]), "step": k,
                                 "model": model[k][:3000] if k < len(model) else None,
                                 "impl": recs[k][:3000] if k < len(recs) else None})
        self.pending = []


def random_schedule(m: Machine, rng, scn, paused):
    """one random maximal schedule (uniform choice among the options at every node)"""
    name, a, sr, tasks, toggles = scn[:5]
    m.start(a, sr, paused, tasks, scn_opts(scn))
    letters, recs, used = [], [], 0
    while True:
        opts = options(m, toggles - used)
        if not opts:
            break
        l = rng.choice(opts)
        if l in ("pause", "resume"):
            used += 1
        recs.append(m.step(l))
        letters.append(l)
    return letters, recs


def complete(m: Machine, letters, toggles=2):
    """run the remaining tasks to their end with the default policy (first enabled task; `resume` when only
    blocked drain waiters are left); returns the letters used"""
    extra = []
    while True:
        opts = options(m, 0)
        if not opts:
            break
        m.step(opts[0])
        extra.append(opts[0])
    return extra


def own_numbered(msg) -> bool:
    mtype, tags = msg
    return mtype == "4" or dict(tags).get(43) == "Y"


def judgeable(scn) -> bool:
    """the oracle's sentences apply: consistent store at the start, and no application task re-sends under a number
    of its own choice (an ENCODABLE PossDupFlag=Y / SequenceReset from the application reuses a number on purpose:
    compared with the model only).  A refused one (text outside latin-1) must change nothing and is judged."""
    if not consistent(scn[1]):
        return False
    if scn[1].state > 3 and not scn[1].sock:
        return False  # connected state without a transport as a START state: compared with the model only
    for t in list(scn[3]) + list(scn_opts(scn).get("nb", [])):
        if t[0] == "send" and own_numbered(t[2]) and all(ord(ch) < 256 for _, v in t[2][1] for ch in v):
            return False
    return True


def with_key(scn, paused):
    """MULTIPLICITY: unless the scenario says otherwise the connection owns the first session of the shared
    journal when the transport starts free and the third one when it starts paused"""
    o = dict(scn_opts(scn))
    o.setdefault("key", 3 if paused else 1)
    return tuple(scn[:5]) + (o,)


def explore_scenario(m, scn, paused, bound, cmp_, fails, visited=None, max_paths=None, nstat=None):
    """exploration + comparison + (on the same executions) the oracle's sentences"""
    scn = with_key(scn, paused)
    judge_it = judgeable(scn)

    def on_path(letters, recs, complete_):
        cmp_.add(scn, paused, letters, recs)
        if nstat is not None:
            nstat["paths"] = nstat.get("paths", 0) + 1
        if judge_it and complete_ and m.all_done():
            sent = judge(m, scn[1])
            if nstat is not None:
                nstat["judged"] = nstat.get("judged", 0) + 1
            if sent:
                fails.append(failure(m, scn, paused, letters, sent))

    return explore(m, scn, paused, bound, visited=visited, max_paths=max_paths, on_path=on_path)


def _worker(job):
    """thorough tier: one (scenario, initial back-pressure) in its own process"""
    idx, paused, bound, max_paths, hashed = job
    scn = scenarios("thorough")[idx]
    m = Machine()
    stats, fails, nstat = {}, [], {}
    cmp_ = Comparer(stats)
    try:
        explore_scenario(m, scn, paused, bound, cmp_, fails, visited=set() if hashed else None, max_paths=max_paths,
                         nstat=nstat)
        cmp_.flush()
    finally:
        m.finish()
        m.close()
    keep = {}
    for f in fails:
        keep.setdefault(f["signature"], [])
        if len(keep[f["signature"]]) < 3:
            keep[f["signature"]].append(f)
    return {"scenario": scn[0], "paused": paused, "evals": cmp_.evals, "shapes": {hash(x) for x in cmp_.shapes},
            "stats": stats, "dis": cmp_.dis[:5], "ndis": len(cmp_.dis), "fails": [f for v in keep.values() for f in v],
            "nfails": len(fails), "nstat": nstat, "samples": cmp_.samples}


def merge_stats(dst, src):
    for k, v in src.items():
        if isinstance(v, dict):
            merge_stats(dst.setdefault(k, {}), v)
        else:
            dst[k] = dst.get(k, 0) + v


def correspondence(ctx):
    m = Machine()
    stats = {}
    cmp_ = Comparer(stats)
    fails, nstat = [], {}
    shapes_extra = set()
    try:
        # corpus first (also letters that are NOT enabled: they must change nothing on either side)
        for e in corpus_entries():
            scn, paused, letters = entry_scn(e)
            cmp_.add(scn, paused, letters, run_letters(m, scn, paused, letters))
        quick = scenarios("quick")
        for idx, scn in enumerate(quick):
            # `one`: small families run with ONE initial back-pressure (alternating), the others with both
            for paused in ((idx % 2 == 1,) if scn_opts(scn).get("one") else (False, True)):
                explore_scenario(m, scn, paused, scn_opts(scn).get("bound", 6), cmp_, fails, nstat=nstat)
        # uniformly random maximal schedules of the long scenarios (beyond the branching bound)
        long_ = [s for s in quick if "resend" in s[0] or "logout" in s[0] or "logon" in s[0]]
        for _ in range(ctx.n(400, 3000)):
            scn = ctx.rng.choice(long_)
            paused = ctx.rng.random() < 0.5
            scn2 = with_key((scn[0], scn[1], scn[2], scn[3], 2) + tuple(scn[5:]), paused)
            l, r = random_schedule(m, ctx.rng, scn2, paused)
            cmp_.add(scn2, paused, l, r)
            if judgeable(scn2) and m.all_done():
                sent = judge(m, scn2[1])
                nstat["judged"] = nstat.get("judged", 0) + 1
                if sent:
                    fails.append(failure(m, scn2, paused, l, sent))
        cmp_.flush()
        evals, dis, samples = cmp_.evals, list(cmp_.dis), list(cmp_.samples)
        if ctx.tier == "thorough":
            import multiprocessing as mp

            n3 = len(scenarios("thorough"))
            # (a) state-hashed, deep: every distinct abstract state of every scenario is expanded once;
            # (b) plain re-execution, bound 9, no hashing (hashing ignores the coroutines' local variables)
            jobs = [(i, p, 16, 20000, True) for i in range(n3) for p in (False, True)]
            jobs += [(i, p, 9, 6000, False) for i in range(n3) for p in (False, True)]
            with mp.Pool(min(16, os.cpu_count() or 4)) as pool:
                for res in pool.imap_unordered(_worker, jobs):
                    evals += res["evals"]
                    dis += res["dis"]
                    shapes_extra |= res["shapes"]
                    merge_stats(stats, res["stats"])
                    merge_stats(nstat, res["nstat"])
                    fails += res["fails"]
                    samples += res["samples"][:1]
                    if res["ndis"]:
                        ctx.note(f"{res['scenario']} paused={res['paused']}: {res['ndis']} disagreements")
        ctx.c14_failures = fails
        ctx.c14_nstat = nstat
        stats["oracle_on_same_runs"] = nstat
        return {
            "evaluations": evals,
            "distinct_nontrivial": len({hash(x) for x in cmp_.shapes} | shapes_extra),
            "rule": "every schedule = (initial connection incl. journal, task set, initial back-pressure, letters); "
                    "quick: all schedules of {2 senders} x9, {sender + tick} x4, {sender + reader with one inbound frame: "
                    "Logon x3, TestRequest, ResendRequest x10 (1-3 journaled messages, declined, session rows, holes, bounded EndSeqNo, "
                    "EndSeqNo < BeginSeqNo, beyond, while awaiting), high seqnum, app, Heartbeat x2, Logout, GapFill, SequenceReset, CompID mismatch} and "
                    "{reader + tick}, {2 senders with own-numbered / unencodable messages} x10, {tick + sender in each connected state "
                    "6,7,10,11,12,17 and disconnected x probe due / silent / TestRequest overdue / pending} x25, {reader servicing "
                    "a ResendRequest + tick with the probe due}, acceptor role x2, {second connection on the same Journaler with "
                    "its own send / ResendRequest / reset_seq_num tasks} x6 (connection = first session when the transport "
                    "starts free, third session when it starts paused), {reader alone / + idle tick / + refused sender whose ResendRequest reply is the last outbound "
                    "activity: journals with session-level rows, holes, PossDup copies, declined rows} x19, each with the transport initially free / paused, branching over every enabled letter "
                    "at the first 6 nodes that offer a choice and completed first-enabled afterwards, plus uniformly random "
                    "maximal schedules of the long scenarios; thorough: the same scenario list extended by eleven 3-task "
                    "scenarios, explored twice per (scenario, back-pressure), one process each: (a) bound 16 with state hashing "
                    "(a node whose (connection, journal, suspension points, queue, per-task progress) was seen is not expanded "
                    "again), (b) bound 9 without hashing, <= 6000 schedules.  evaluations = compared steps (one per letter: effects of the step, whole connection + journal, "
                    "suspension point of every task, drain FIFO, rewind / restore counts); distinct = distinct (scenario, "
                    "per-step effect kinds, per-step suspension points) sequences.",
            "samples": samples[:6],
            "exhaustive": True,
            "distribution": stats,
            "disagreements": dis,
        }
    finally:
        m.finish()
        m.close()


# ------------------------------------------------------------------------------------------------
# oracle: the property's sentences on the real coroutines (never calls the model)
# ------------------------------------------------------------------------------------------------

def consistent(a: S.AbsConn) -> bool:
    """the outbound store agrees with the counter before the tasks start (what every earlier send left behind)"""
    return a.stored_out + 1 == a.next_out and all(seq < a.next_out for seq, _ in a.out_rows)


BODY_SKIP = {8, 9, 10, 34, 43, 52, 122}


def body_of(fields):
    return [(t, v) for t, v in fields if t not in BODY_SKIP]


def judge_data(a: S.AbsConn, wire, excs, post: S.AbsConn, done: bool, faulty: bool = False):
    """sentences of C14 for ONE connection: wire = [(task, fields)] in wire order, excs = [(task, kind, exc)],
    post = its counters / stored counter / outbound rows afterwards.  Returns [(sentence, detail)]."""
    out = []
    known = {seq: fs for seq, (_, fs) in a.out_rows}  # number -> frame that owns it
    used = set(known)                                  # (every number below the initial counter is spent too)
    last_new = a.next_out - 1
    highest = a.next_out - 1
    for task, fs in wire:
        d = dict(fs)
        try:
            n = int(d.get(34))
        except (TypeError, ValueError):
            out.append(("frame-without-number", str(fs)[:200]))
            continue
        retrans = d.get(35) == "4" or d.get(43, "N") == "Y"
        if retrans:
            if d.get(35) == "4":
                continue  # gap fill: stands for numbers it names; checked by C06
            own = known.get(n)
            if own is None or body_of(own) != body_of(fs):
                out.append(("retransmission-of-foreign-number", f"34={n} task {task}"))
            continue
        if n in used or n < a.next_out:
            out.append(("number-reused-by-new-message", f"34={n} task {task}"))
        if n <= last_new:
            out.append(("not-increasing", f"34={n} after {last_new} task {task}"))
        last_new = max(last_new, n)
        highest = max(highest, n)
        used.add(n)
        known[n] = fs
    for task, kind, exc in excs:
        if exc == "DuplicateSeqNo":
            out.append(("duplicate-error", f"task {task} {kind}"))
    rows = dict(post.out_rows)
    for task, fs in wire:
        d = dict(fs)
        if d.get(35) == "4" or d.get(43, "N") == "Y" or not str(d.get(34, "")).isdigit():
            continue
        n = int(d[34])
        r = rows.get(n)
        if r is None:
            out.append(("not-journaled", f"34={n} task {task}"))
        elif r[1] != fs and not (dict(r[1]).get(43) == "Y" and body_of(r[1]) == body_of(fs)) and dict(r[1]).get(35) != "4":
            out.append(("journaled-differently", f"34={n} task {task}"))
    if done:
        if post.stored_out + 1 != post.next_out:
            out.append(("stored-counter", f"stored {post.stored_out} + 1 != next_num_out {post.next_out}"))
        if faulty:
            # after a transport fault a frame may be journaled without having reached the wire (the peer will ask
            # for it); what must still hold: the counter is above every number that DID reach the wire
            if post.next_out <= highest:
                out.append(("counter-not-above-sent", f"next_num_out {post.next_out} <= highest sent {highest}"))
        elif post.next_out != highest + 1:
            out.append(("final-counter", f"next_num_out {post.next_out} != highest sent {highest} + 1"))
    return out


def judge(m: Machine, a: S.AbsConn):
    """the sentences on the connection under test, on the neighbour connection that shares its Journaler (when
    it has tasks), and: the other sessions of the journal are untouched"""
    wire = [(m.owner[k], S.bytes_to_fields(e[1])) for k, e in enumerate(m.eff) if e[0] == "W"]
    excs = [(m.owner[k], e[0], e[1]) for k, e in enumerate(m.eff) if e[0] in ("C", "R")]
    faulty = any(t[0] == "fault" for t in m.trace)
    out = judge_data(a, wire, excs, S.parse_conn_tokens(m.dump()), m.all_done(), faulty)
    if m.session_image(m.inert_key) != m.inert_snapshot:
        out.append(("other-session-touched", f"inert session {m.inert_key} of the shared journal changed"))
    if m.nb_tasks:
        nbw = [("nb", S.bytes_to_fields(b)) for b in m.nb_wire]
        nbe = [("nb", k, x) for k, x in m.nb_exc]
        post = m.nb_post()
        if any(t[0] == "reset" for t in m.nb_tasks):
            # reset_seq_num() is the application's deliberate restart at 1: afterwards the store must agree with
            # the counter and hold no outbound row at or above it
            if m.all_done() and post.stored_out + 1 != post.next_out:
                out.append(("neighbour-stored-counter", f"stored {post.stored_out} + 1 != next_num_out {post.next_out}"))
            if m.all_done() and any(seq >= post.next_out for seq, _ in post.out_rows):
                out.append(("neighbour-rows-above-counter", f"rows {[q for q, _ in post.out_rows]} next_num_out {post.next_out}"))
        else:
            out += [("neighbour-" + s_, d) for s_, d in judge_data(NB_STATE, nbw, nbe, post, m.all_done())]
        for k, x in m.nb_exc:
            if x not in ("DuplicateSeqNo",):
                out.append(("neighbour-exception", f"{k}={x}"))
    elif m.session_image(m.nb_key) != m.nb_snapshot:
        out.append(("other-session-touched", f"idle neighbour session {m.nb_key} of the shared journal changed"))
    return out


TASK_KIND = {"send": "application", "tick": "watchdog", "recv": "reader", "spawned": "spawned"}


def classify(m: Machine, sentences):
    """signature of a failing schedule.
    D21 class: the FIRST new message that took its number while a _process_resend was between its two
    set_seq_num calls (or had died there) came from an APPLICATION sender task.  (On the unchanged tree the
    watchdog does not probe in RESENDREQ_HANDLING / RESENDREQ_AWAITING and the reader sends nothing new inside
    its window: an allocation by one of THEM inside the window is a different failure.)
    Revived class: `_state_set` put the connection into a connected state while there was no transport, and a
    later send died in `None.write`."""
    inside = [t for t in m.trace if t[0] == "alloc" and t[3]]
    if inside:
        who = TASK_KIND.get(m.task_defs[inside[0][1]][0], "other") if inside[0][1] is not None else "other"
        if who == "application":
            return SIG_D21
        return f"C14-{who}-send-inside-resend-rewind-window"
    kinds = sorted({s for s, _ in sentences})
    if any(t[0] == "revived" for t in m.trace) and any(e[0] in ("C", "R") and e[1] == "Attribute" for e in m.eff):
        return SIG_NOTRANSPORT
    return "C14-" + "+".join(kinds)


def failure(m: Machine, scn, paused, letters, sent):
    return {"signature": classify(m, sent), "what": "; ".join(f"{s_}: {d}" for s_, d in sent[:6]),
            "input": make_entry(scn, paused, letters),
            "expected": "new messages strictly increasing, no reuse, every frame journaled, no duplicate error, "
                        "stored next = next_num_out = highest sent + 1",
            "observed": {"sentences": sent[:10], "final": m.dump()[:600],
                         "events": [list(t[:2]) + [t[2] if t[0] != "write" else S.bytes_to_fields(t[2])[5:6]]
                                    for t in m.trace][:40]}}


def oracle_run(m: Machine, scn, paused, letters):
    """run the schedule on the real coroutines (remaining tasks are run to their end) and judge it;
    returns a failure dict or None"""
    name, a, sr, tasks, _ = scn[:5]
    m.start(a, sr, paused, tasks, scn_opts(scn))
    for l in letters:
        m.step(l)
    letters = list(letters) + complete(m, letters)
    sent = judge(m, a)
    if not sent:
        return None
    return failure(m, scn, paused, letters, sent)


def fault_scenarios():
    """TRANSPORT FAULTS (oracle only – the model has no failing write / drain / close): the k-th write() raises,
    the k-th drain() raises AFTER its write went out and after it was suspended (other tasks run meanwhile), the
    k-th close() / wait_closed() raises; ConnectionResetError and RuntimeError; for the reader's replies (Logon
    reply, Heartbeat reply, ResendRequest on a gap, Logout-driven disconnect, resend servicing), the watchdog's
    TestRequest and application senders."""
    a = active()
    acc = fresh_net(2)
    due = active(last_time=T0 - 30000)
    sender = ("send", T0 + 125, APP("conc"))
    base = [
        ("fault:2send", a, [("send", T0, APP("a")), sender]),
        ("fault:send+logon(acceptor)", acc, [rx(acc, "A", [(98, "0"), (108, "30")]), sender]),
        ("fault:send+logon-high(acceptor)", acc, [rx(acc, "A", [(98, "0"), (108, "30")], seq=3), sender]),
        ("fault:send+testrequest", a, [rx(a, "1", [(112, "T")]), sender]),
        ("fault:send+high-seqnum", a, [rx(a, "D", [(11, "gap")], seq=a.next_in + 2), sender]),
        ("fault:send+logout", a, [rx(a, "5", []), sender]),
        ("fault:send+compid-mismatch", a, [rx(a, "D", [(58, "x")], target="WRONG"), sender]),
        ("fault:send+tick-probe", due, [("tick", T0), sender]),
        ("fault:send+tick-silence", active(state=12, max_resend=9, last_time=T0 - 61000), [("tick", T0), sender]),
        ("fault:resend-2", a, [rx(a, "2", [(7, "5"), (16, "0")])]),
        ("fault:resend-last(sess)", active(shape="sess"), [rx(a, "2", [(7, "3"), (16, "0")])]),
    ]
    out = []
    n = 0
    for name, a0, tasks in base:
        for op, ks in (("drain", (1, 2)), ("write", (1, 2)), ("close", (1,)), ("wait_closed", (1,))):
            for k in ks:
                n += 1
                exc = "reset" if n % 2 else "runtime"
                out.append((f"{name}:{op}#{k}:{exc}", a0, "all", tasks, 1 if op == "drain" else 0,
                            {"fault": (op, k, exc), "key": 1 + 2 * (n % 2)}))
    return out


def fault_probe(scn) -> bool:
    """NOT gating: a transport fault while a ResendRequest is serviced leaves the outbound counter rewound on the
    unchanged tree (an exception inside _process_resend never reaches the restoring set_seq_num) – reported to the
    coordinator with its witness (round 5), kept out of the verdict until it is decided; the number of such
    failures goes into the evidence notes"""
    return scn[0].startswith("fault:resend")


def fault_search(m, ctx, stats, failures, bound=4):
    n = fired = 0
    probe = []
    for scn in fault_scenarios():
        for paused in ((False, True) if scn[4] else (False,)):
            def on_path(letters, recs, complete_, scn=scn, paused=paused):
                nonlocal n, fired
                n += 1
                if not any(t[0] == "fault" for t in m.trace):
                    return  # the faulty call was never reached in this scenario: an ordinary run
                fired += 1
                sent = judge(m, scn[1])
                if sent:
                    (probe if fault_probe(scn) else failures).append(failure(m, scn, paused, letters, sent))
            explore(m, scn, paused, bound, on_path=on_path, max_paths=ctx.n(60, 600))
    stats["fault_schedules"] = n
    stats["fault_fired"] = fired
    stats["fault_probe_not_gating"] = {"failures": len(probe),
                                       "signatures": sorted({f["signature"] for f in probe}),
                                       "witness": probe[0]["input"] if probe else None}


def oracle(ctx, disagreements, broken):
    m = Machine()
    failures, stats = [], {"replayed_corpus": 0, "replayed_disagreements": 0, "explored": 0, "random": 0}
    try:
        # the witnesses of the open findings and the rest of the corpus
        for e in corpus_entries():
            scn, paused, letters = entry_scn(e)
            if not judgeable(scn):
                continue
            stats["replayed_corpus"] += 1
            f = oracle_run(m, scn, paused, letters)
            if f:
                failures.append(f)
        # the disagreeing schedules first
        for d in disagreements[:300]:
            scn, paused, letters = entry_scn(d["input"])
            if not judgeable(scn):
                continue
            stats["replayed_disagreements"] += 1
            f = oracle_run(m, scn, paused, letters)
            if f:
                failures.append(f)
        fault_search(m, ctx, stats, failures)
        cached = getattr(ctx, "c14_failures", None)
        known = {k["signature"] for k in C.load_findings(PROP)}
        concrete = any(f["signature"] not in known for f in failures) or \
            any(f["signature"] not in known for f in (cached or []))
        if cached is not None and (not broken or concrete):
            # the executions of the correspondence run were judged already; when the tie is broken and these
            # (or the disagreeing schedules above) already give a concrete failing schedule, that is the replay
            failures += cached
            stats["explored"] = getattr(ctx, "c14_nstat", {}).get("judged", 0)
        else:
            # search harder: deeper branching on every scenario, then random schedules of all scenarios
            scns = [s_ for s_ in scenarios("thorough") if judgeable(s_)]
            for scn0 in scns:
                for paused in (False, True):
                    scn = with_key(scn0, paused)
                    paths = []
                    explore(m, scn, paused, 8 if len(scn[3]) == 2 else 6, on_path=lambda l, r, c: paths.append(l),
                            max_paths=ctx.n(1500, 6000))
                    for l in paths:
                        stats["explored"] += 1
                        f = oracle_run(m, scn, paused, l)
                        if f:
                            failures.append(f)
            for _ in range(ctx.n(3000, 20000)):
                scn = ctx.rng.choice(scns)
                paused = ctx.rng.random() < 0.5
                scn2 = with_key((scn[0], scn[1], scn[2], scn[3], 3) + tuple(scn[5:]), paused)
                l, _r = random_schedule(m, ctx.rng, scn2, paused)
                stats["random"] += 1
                if m.all_done():
                    sent = judge(m, scn2[1])
                    if sent:
                        failures.append(failure(m, scn2, paused, l, sent))
        # shortest schedule first within a signature; a few per signature are enough
        failures.sort(key=lambda f: (f["signature"], len(f["input"]["letters"])))
        keep, out = {}, []
        for f in failures:
            k = keep.get(f["signature"], 0)
            if k < 5:
                out.append(f)
            keep[f["signature"]] = k + 1
        stats["failures_by_signature"] = keep
        stats["sentences"] = ["not-increasing", "number-reused-by-new-message", "retransmission-of-foreign-number",
                              "not-journaled", "journaled-differently", "duplicate-error", "stored-counter",
                              "final-counter", "frame-without-number"]
        ctx.oracle_stats = stats
        return out
    finally:
        m.finish()
        m.close()


def replay(ctx, rp):
    m = Machine()
    try:
        scn, paused, letters = entry_scn(rp["input"])
        f = oracle_run(m, scn, paused, letters)
        print("replay:", " ".join(letters), "->", (f or {}).get("signature"), (f or {}).get("what"))
        return bool(f) and f["signature"] == rp["signature"]
    finally:
        m.finish()
        m.close()
