"""C17 – an order object converges to the exchange's view of the order.  DESIGN.md §6 C17.

tie:    the REAL FIXNewOrderSingle is driven by action sequences (client builders, reports of a
        Python reference exchange fabricated as real FIXMessages, FIFO queues both ways) and compared
        step by step with the Lean model (Model/OrderObj + Model/Exchange + Model/OrderLink):
        outcome of the step (built request with every tag, return value, exception kind, emitted
        reports), the order's whole observable state, queue lengths and the exchange state.
        Plus: arbitrary / malformed reports fed straight into the order, clord_root against the regex
        model, str(float) against renderGrid.
oracle: the property's sentences checked on the real object against the Python reference exchange only.
"""
from __future__ import annotations

import glob
import json
import os
import subprocess
import time

from . import common as C
from . import c17_ref as R

PROP = "C17"
PROPS_MODULES = ["AsyncFix.Props.C17"]
FINDINGS_MODULE = "AsyncFix.Findings.C17"
ASSUMPTIONS = [
    "prices and quantities are on a fixed-point grid (integers counting 1/8 units, |value| < 2^46 ≈ 7e13, where str(float) still prints all three decimals): exact in binary "
    "floating point, so the library's float arithmetic/equality and the model's integer arithmetic agree; the harness "
    "only uses grid values, what float(text) does to a report tag is abstracted to missing / unparsable / grid value",
    "ClOrdIDs and other copied text are lists of code points; status / ExecType / MsgType values are strings "
    "(enum members compare and hash by value); the int 0 'ExecType omitted' marker is a string that is no table key",
    "OPTIONAL TAGS: the reference exchange of the theorems always echoes Price / OrderQty; reports delivered without the "
    "optional tags (Price / OrderQty absent where the order does not read them or where the replace left them unchanged, "
    "LastQty / LastPx present or absent, AvgPx 0) are covered by the correspondence (the model reads absent tags branch for "
    "branch) and the oracle; the constructor's ord_type (every FOrdType value, member or str), side (every FOrdSide value), "
    "account (str, or a dict: set_account asserts – compared with the model's raising-hook branch) are configuration of the cases",
    "reports are flat messages (no repeating groups, no error-class tag values); constructor arguments ticker / side / "
    "ord_type / account are str; price / qty (constructor and replace_req arguments) are Python floats or ints – the "
    "numeric TYPE is a Python-only dimension (the model's numbers are grid integers): both types are generated, an "
    "int-typed value prints without '.0' in a built request and is canonicalised to the float spelling before comparing",
    "the reference exchange (Model/Exchange.lean, harness/c17_ref.py) is SPEC written for this property after the FIX 4.4 "
    "Vol.4 order state change matrices; both directions are FIFO, the client swallows an exception raised while "
    "processing a report (the report is consumed)",
    "application hooks (set_instrument, set_account, set_price_qty, current_datetime overridden in a subclass) return "
    "normally and do not call back in every THEOREM; hooks that raise (Exception / asyncio.CancelledError) at any position, "
    "call clord_next() or query the gates are covered by the correspondence (model branch newReqH / cancelReqH / replaceReqH "
    "mirrors the code as it is) and by the oracle clauses that still hold then (reports keep being absorbed, convergence at "
    "rest, queries are pure, gates = transition function). OBSERVATION outside the property's quantifier: the builders are not "
    "exception safe w.r.t. a raising hook (clord_id / orig_clord_id / counter already advanced, so later requests fail the "
    "assertion); notes/proposed_fix_exception_safe_builders.diff (14+/10-, suite green) would make them so – not applied by decision",
    "str(int) of the ClOrdID counter is plain decimal (CPython's 4300-digit limit is out of reach)",
    "MAGNITUDE: the single 1/8 grid is kept up to its limit (grid integers below 2^49, values below 2^46 ≈ 7e13, where "
    "one tick is a relative change of 2e-15): the model's integers are unbounded, the generators include prices 2.5e10 .. 7e13 "
    "with one-tick changes; larger magnitudes (where floats leave the grid) are outside the model and the harness",
    "HISTORY LENGTH: theorems hold for every counter value (decimal rendering proved injective for all n); the harness drives "
    "chains of up to 103 (thorough: 1003) requests with rejects around 9/10, 99/100 (999/1000)",
    "LATE / DUPLICATED reports are outside the closed-system theorems (the reference exchange never sends them); they are "
    "covered by the open-system theorems (finished_stays_finished, status_is_enum, one_outstanding, can_implies_builds hold for "
    "ANY report sequence) and by the late/duplicate stream of the correspondence",
]
MODELLED_NOT_VERIFIED = [
    "C17: FIXNewOrderSingle methods, RE_CLORD_ROOT (backtracking model of (.+)--(\\d+)\\Z with re.DOTALL, \\d = the "
    "code points CPython's re matches, regenerated each run), str(float) on the grid are hand-modelled and compared by "
    "the correspondence; FIXMessage get/set, float(), Enum lookup by value are assumed as modelled",
]

HERE = os.path.dirname(os.path.dirname(os.path.abspath(__file__)))

# generated data of this family (to be hooked into tools/gen_lean.py; harmless when already done there)
subprocess.run([C.PY, os.path.join(HERE, "tools", "gen_ordobj.py")], env=C.env_for_repo(),
               capture_output=True, text=True)


# ---------------------------------------------------------------------------------------------
# canonical text shared with Driver/OrderObj.lean
# ---------------------------------------------------------------------------------------------
def u(s) -> str:
    if s is None:
        return "-"
    return "u" + ".".join(str(ord(c)) for c in s)


def oint(n) -> str:
    return "-" if n is None else str(n)


def numtok(v) -> str:
    if v is None:
        return "-"
    if v == "bad":
        return "bad"
    return "n%d" % v


def ostr(s) -> str:
    return "-" if s is None else C.hx(s)


def report_tok(r: dict) -> str:
    return ":".join([C.hx(r["35"]), u(r.get("11")), u(r.get("41")), u(r.get("37")), ostr(r.get("150")),
                     ostr(r.get("39")), numtok(r.get("14")), numtok(r.get("151")), numtok(r.get("6")),
                     numtok(r.get("44")), numtok(r.get("38"))])


def order_tok(ob: dict) -> str:
    def b(x):
        return ("1" if x else "0") if isinstance(x, bool) else str(x)

    st = ob["status"]
    return " ".join([
        "st=" + (C.hx(st) if not st.startswith("plain:") else st.replace(" ", "_")),
        "cl=" + u(ob["clord"]), "or=" + u(ob["orig"]), "oid=" + u(ob["oid"]),
        "px=%s" % ob["price"], "qty=%s" % ob["qty"], "lv=%s" % ob["leaves"], "cum=%s" % ob["cum"],
        "avg=%s" % ob["avg"], "cnt=%d" % ob["cnt"], "cc=" + b(ob["can_cancel"]), "cr=" + b(ob["can_replace"]),
        "fin=" + b(ob["fin"])])


def exch_tok(ex: R.RefExchange) -> str:
    p = ex.pending
    return " ".join([
        "known" if ex.known else "unknown", C.hx(ex.base), u(ex.live_id), str(ex.price), str(ex.qty), str(ex.cum),
        str(ex.leaves), str(ex.avg_px), C.hx(ex.reported()),
        "-" if p is None else "%s/%s/%d/%d" % (C.hx(p[0]), u(p[1]), p[2], p[3])])


def out_tok(res: list) -> str:
    k = res[0]
    if k == "built":
        seen = ""
        if len(res) > 3:  # can_cancel / can_replace as seen from inside a hook
            seen = " seen=%s,%s" % tuple(("1" if x else "0") if isinstance(x, bool) else str(x) for x in res[3][1:])
        return "built %s %s%s" % (C.hx(res[1]), ",".join("%d=%s" % (t, u(v)) for t, v in res[2]), seen)
    if k == "raise":
        return "raise " + res[1]
    if k == "ret":
        return "ret " + ("1" if res[1] else "0")
    if k == "empty":
        return "empty"
    if k == "emit":
        return "emit " + ";".join(report_tok(dict([["35", r[0]]] + r[1:])) for r in res[1])
    raise ValueError(res)


def link_tok(out: str, L: R.Link) -> str:
    return "%s | %s | %d %d | %s" % (out, order_tok(R.order_obs(L.order)), len(L.c2e), len(L.e2c), exch_tok(L.ex))


def action_line(a: list, case=None) -> str:
    k = a[0]
    if k == "cNew" and case is not None and isinstance(case.get("cfg", DEFAULT_CFG)[3], dict):
        return "oo.actf raises cNew"   # set_account() asserts a str account: the model's raising-hook branch
    if k == "feed":
        r = a[1]
        return "oo.feed " + report_tok(r).replace(":", " ")
    if k == "cReplace":
        return "oo.act cReplace %s %s" % (oint(a[1]), oint(a[2]))
    if k == "cRecvOmit":
        return "oo.recvomit %d" % a[1]
    if k in ("hNew", "hCancel"):
        return "oo.actf %s c%s" % (a[1], k[1:])
    if k == "hReplace":
        return "oo.actf %s cReplace %s %s" % (a[3], oint(a[1]), oint(a[2]))
    return "oo.act " + " ".join(str(x) for x in a)


DEFAULT_CFG = ["TICK", "1", "2", "ACC"]   # ticker, side, ord_type, account


def init_line(case: dict) -> str:
    t, sd, ot, ac = case.get("cfg", DEFAULT_CFG)
    ac = ac if isinstance(ac, str) else "DICT"
    return "oo.init %s %d %d %s %s %s %s" % (u(case["root"]), case["price"], case["qty"], u(t), u(sd), u(ot), u(ac))


# ---------------------------------------------------------------------------------------------
# running a case on the implementation
# ---------------------------------------------------------------------------------------------
def make_link(case):
    t, sd, ot, ac = case.get("cfg", DEFAULT_CFG)
    return R.Link(case["root"], case["price"], case["qty"], t, sd, ot, ac, ptype=case.get("ptype", "float"),
                  qtype=case.get("qtype", "float"), argint=case.get("argint", False), enums=case.get("enums", False),
                  subclass=case.get("subclass", False))


def new_link(case):
    """-> (Link | None, first line)"""
    try:
        L = make_link(case)
    except BaseException as e:  # noqa
        return None, "raise " + R.exc_kind(e)
    return L, link_tok("ok", L)


def run_impl(case: dict, monitor=None):
    """lines (same text as the driver's replies) of a whole case; `monitor(L, a, res, before)` sees every step"""
    L, first = new_link(case)
    lines = [first]
    if L is None:
        return lines + ["bad-op"] * len(case["actions"]), None
    style = case.get("style", 0)
    for a in case["actions"]:
        before = R.order_obs(L.order) if monitor else None
        res = L.step(a, style)
        lines.append(link_tok(out_tok(res), L))
        if monitor:
            monitor(L, a, res, before)
    return lines, L


def model_lines(case: dict) -> list:
    return [init_line(case)] + [action_line(a, case) for a in case["actions"]]


# ---------------------------------------------------------------------------------------------
# generators
# ---------------------------------------------------------------------------------------------
ROOTS_GOOD = ["ord", "o-1", "--5", "a--", "A1", "ü-x", "7", "x--y"]
ROOTS_ODD = ["abc--7", "a--1--2", "a\nb", "a--1\nb", "x--٣", "q\n", "\n"]
DECISIONS = ["accept", "reject", "pend"]


# MAGNITUDE: grid numbers up to the 2^49 limit of the grid assumption (values up to 2^46 ≈ 7e13), where one tick
# (1/8) is a relative change far below 1e-9
BIG_PRICES = [8 * 25_000_000_000, 8 * 10**10 + 1, 8 * 10**12 + 3, 2**49 - 9, 2**48 + 1, 8 * 999_999_999_999 + 7]
BIG_QTYS = [8 * 10**9, 8 * 10**12, 2**49 - 16, 2**47 + 5]
TICKERS = ["TICK", "EUR/USD", "ÖL-1", "A B", "7"]
SIDES = ["1", "2", "3", "4", "5", "6", "7", "8", "9", "A", "B", "C", "D", "E", "F", "G"]          # every FOrdSide value
ORD_TYPES = ["2", "1", "3", "4", "6", "7", "8", "9", "D", "E", "G", "I", "J", "K", "L", "M", "P"]   # every FOrdType value
ACCOUNTS = ["ACC", "000000", "dépôt", {"1": "ACC"}]                                                 # str, or a dict (set_account asserts)


def rand_config(rng):
    c = _rand_config(rng)
    if isinstance(c["cfg"][3], dict):
        c["subclass"] = False   # new_req() cannot succeed with a dict account; no hook variants on top of that
    return c


def _rand_config(rng):
    """CONFIGURATION: Python types of price / qty / replace arguments, enum members or plain strings for side and
    order type, instrument / account text"""
    return {"ptype": rng.choice(["float", "int"]), "qtype": rng.choice(["float", "int"]), "argint": rng.random() < 0.5,
            "enums": rng.random() < 0.5, "subclass": rng.random() < 0.5,
            "cfg": [rng.choice(TICKERS), rng.choice(SIDES), rng.choice(ORD_TYPES + ["2"] * 6),
                    rng.choice(ACCOUNTS if rng.random() < 0.2 else ACCOUNTS[:3])]}


def rand_case(rng, maxlen=25, odd_roots=True):
    root = rng.choice(ROOTS_GOOD if (not odd_roots or rng.random() < 0.85) else ROOTS_ODD)
    price = rng.choice([80, 80, 81, 1, 100, 800001, 0, -8] + BIG_PRICES)
    qty = rng.choice([40, 40, 8, 1, 100, 13, 0] + BIG_QTYS)
    case = {"root": root, "price": price, "qty": qty, "style": rng.randrange(3), "actions": []}
    case.update(rand_config(rng))
    L = make_link(case)
    n = rng.randint(1, maxlen)
    for i in range(n):
        a = rand_action(rng, L, first=(i == 0))
        case["actions"].append(a)
        L.step(a, case["style"])
    return case


def rand_action(rng, L, first=False):
    ex = L.ex
    if first and rng.random() < 0.93:
        return ["cNew"]
    enabled = []
    if L.e2c:
        enabled += [["cRecv"]] * 4 + [["cRecvOmit", safe_mask(L)]] * 2
    if L.c2e:
        enabled += [["xRecv", rng.choice(DECISIONS)]] * 5
    if ex.pending is not None:
        enabled += [["xDecide", rng.choice(["accept", "reject"])]] * 3
    if ex.known and ex.base == "A":
        enabled += [["xAck"], ["xAck"], ["xRejNew"]]
    if ex.known and ex.base in ("0", "1"):
        lv = max(ex.leaves, 1)
        enabled += [["xFill", rng.choice([1, 3, 8, lv, lv, max(lv // 2, 1)]), rng.choice([79, 80, 81])]] * 4
        enabled += [["xSuspend"]]
    if ex.known and ex.base in R.LIVE:
        enabled += [["xExpire"]]
    if ex.known and ex.base == "9":
        enabled += [["xResume"]] * 2
    ob = R.order_obs(L.order)
    if ob["can_cancel"] is True:
        enabled += [["cCancel"]] * 2
    if ob["can_replace"] is True:
        enabled += [rand_replace(rng, L)] * 3
    if ob["status"] == "Z":
        enabled += [["cNew"]] * 3
    if enabled and rng.random() < 0.85:
        a = rng.choice(enabled)
        if a[0] in ("cNew", "cCancel", "cReplace") and isinstance(L.order, R.hooked_class()) and rng.random() < 0.3:
            a = hooked(rng, a)
        return a
    # anything, enabled or not
    return rng.choice([
        ["cNew"], ["cCancel"], rand_replace(rng, L), ["cRecv"], ["xRecv", rng.choice(DECISIONS)],
        ["xDecide", rng.choice(DECISIONS)], ["xAck"], ["xRejNew"],
        ["xFill", rng.choice([-1, 0, 1, 8, 1000]), 80], ["xExpire"], ["xSuspend"], ["xResume"]])


def safe_mask(L):
    """OPTIONAL TAGS: which of Price (1) / OrderQty (2) the exchange may leave out of the next report without
    withholding information: any on reports where the order does not read them, on a Replaced report those
    that the replace did not change"""
    if not L.e2c:
        return 3
    r = L.e2c[0]
    if r["35"] != "8" or r.get("150") != "5":
        return 3
    ob = R.order_obs(L.order)
    return (1 if r.get("44") == ob["price"] else 0) | (2 if r.get("38") == ob["qty"] else 0)


HOOK_MODES = ["raises", "raises", "bumps", "reenters"]


def hooked(rng, a, mode=None, k=None, exc=None):
    """the builder action `a` with a misbehaving application hook: at the k-th hook call (set_instrument, set_account,
    current_datetime, set_price_qty – whichever the builder calls k-th) the override raises an Exception / a
    BaseException (asyncio.CancelledError), or calls clord_next(), or queries can_cancel() / can_replace()"""
    mode = mode or rng.choice(HOOK_MODES)
    k = rng.randrange(4) if k is None else k
    exc = exc or rng.choice(["Exception", "Cancelled"])
    return ["h" + a[0][1:]] + list(a[1:]) + [mode, k, exc]


def hook_cases(rng, tier):
    """COLLABORATOR FAULTS: every builder x every hook position x every behaviour, in a live / partially filled /
    suspended / just created order; afterwards the exchange goes on by itself (fill to completion, expiry, suspend,
    resume) and the client tries again with healthy hooks"""
    out = []
    pre = {"created": [], "new": [["cNew"], ["xRecv", "accept"], ["cRecv"]],
           "partial": [["cNew"], ["xRecv", "accept"], ["cRecv"], ["xFill", 8, 80], ["cRecv"]],
           "suspended": [["cNew"], ["xRecv", "accept"], ["cRecv"], ["xSuspend"], ["cRecv"]]}
    post = [[["xFill", 40, 80], ["cRecv"]], [["xFill", 8, 80], ["cRecv"], ["cCancel"], ["xRecv", "accept"], ["cRecv"]],
            [["xExpire"], ["cRecv"]], [["cReplace", 88, None], ["cCancel"], ["xFill", 1000, 80], ["xFill", 32, 80], ["cRecv"], ["cRecv"]],
            [["xResume"], ["cRecv"], ["xFill", 1000, 80], ["xFill", 32, 80], ["cRecv"], ["cRecv"]]]
    for pname, p in pre.items():
        builders = [["cNew"]] if pname == "created" else [["cCancel"], ["cReplace", 88, None], ["cReplace", None, 48]]
        for b in builders:
            for mode in ("raises", "bumps", "reenters"):
                for k in range(R.HOOKS_OF[b[0]]):
                    for exc in (("Exception", "Cancelled") if mode == "raises" else ("Exception",)):
                        tail = rng.choice(post) if pname != "created" else [["cNew"], ["xRecv", "accept"], ["cRecv"], ["xFill", 40, 80], ["cRecv"]]
                        if pname != "created" and mode != "raises":
                            tail = [["xRecv", rng.choice(DECISIONS)], ["cRecv"], ["xDecide", "accept"], ["cRecv"]] + tail
                        c = {"root": rng.choice(["ord", "DESK7-ORD"]), "price": 80, "qty": 40, "style": 0, "subclass": True,
                             "name": "hook/%s/%s/%s/%d" % (pname, b[0], mode, k),
                             "actions": p + [hooked(rng, b, mode, k, exc)] + tail}
                        out.append(c)
    return out


def rand_replace(rng, L):
    o = R.order_obs(L.order)
    p0 = o["price"] if isinstance(o["price"], int) else 80
    q0 = o["qty"] if isinstance(o["qty"], int) else 40
    cum = o["cum"] if isinstance(o["cum"], int) else 0
    p = rng.choice([None, None, p0, p0 + 1, p0 - 1, p0 + 4, 96, 0, -8])
    q = rng.choice([None, None, q0, q0 + 8, q0 + 1, max(q0 - 1, 1), max(q0 - 3, 1), cum, max(cum - 1, 1), max(cum - 8, 1), cum + 1,
                    max(q0 // 2, 1), 8 * max((cum + 7) // 8 - 1, 1), 0, -8])
    return ["cReplace", p, q]


STATUS_POOL = ["Z", "0", "1", "2", "3", "4", "6", "7", "8", "9", "A", "B", "C", "D", "E", "X?", "", "00"]
EXEC_POOL = ["0", "3", "4", "5", "6", "8", "9", "A", "C", "D", "E", "F", "I", "?", ""]


def rand_report(rng, L):
    o = L.order
    ids = [o.clord_id, o.orig_clord_id, "zzz", "", None, L.ex.live_id or "q"]
    kind = rng.choice(["8"] * 6 + ["9"] * 3 + ["D"])

    def num():
        r = rng.random()
        if r < 0.06:
            return None
        if r < 0.12:
            return "bad"
        return rng.choice([0, 1, 8, 13, 40, 80, 81, -8])

    def opt(x, p=0.06):
        return None if rng.random() < p else x

    return {"35": kind, "11": opt(rng.choice(ids[:2] * 4 + ids)), "41": opt(rng.choice(ids), 0.5),
            "37": opt(rng.choice(["EX1", "OID", ""])), "150": opt(rng.choice(EXEC_POOL)),
            "39": opt(rng.choice(STATUS_POOL)), "14": num(), "151": num(), "6": num(),
            "44": rng.choice([num(), None]), "38": rng.choice([num(), None])}


def rand_open_case(rng, maxlen=20):
    """open system: client calls and ARBITRARY reports (mostly well-formed, some malformed) fed straight in"""
    case = {"root": rng.choice(ROOTS_GOOD + ROOTS_ODD), "price": rng.choice([80, 81, 1] + BIG_PRICES[:2]), "qty": rng.choice([40, 8]),
            "style": rng.randrange(3), "actions": []}
    case.update(rand_config(rng))
    L = make_link(case)
    for i in range(rng.randint(1, maxlen)):
        r = rng.random()
        if r < 0.55:
            a = ["feed", rand_report(rng, L)]
        elif r < 0.70:
            a = ["cCancel"]
        elif r < 0.85:
            a = rand_replace(rng, L)
        elif r < 0.95:
            a = ["cNew"]
        else:
            a = rand_action(rng, L)
        case["actions"].append(a)
        L.step(a, case["style"])
    return case


# HISTORY LENGTH: long request chains, rejects at every position around the digit-count boundaries of the counter
CHAIN_ROOTS = ["DESK7-ORD", "o", "x--y", "ord-", "R9", "1", "ab\ncd"]


def chain_case(root, n_requests, rejects, kinds=None, pends=(), price=80, qty=800, cfg=None):
    """new + requests with counters 2..n_requests; request i is rejected when i in rejects, acknowledged as pending
    first when i in pends; rejected requests are cancels or replaces (kinds[i]), accepted ones are one-tick re-prices"""
    acts = [["cNew"], ["xRecv", "accept"], ["cRecv"]]
    cur = price
    for i in range(2, n_requests + 1):
        rej = i in rejects
        k = (kinds or {}).get(i, "G")
        if k == "F" and rej:
            acts.append(["cCancel"])
        else:
            new = price + 1 if cur == price else price
            acts.append(["cReplace", new, None])
            if not rej:
                cur = new
        if i in pends:
            acts += [["xRecv", "pend"], ["cRecv"], ["xDecide", "reject" if rej else "accept"], ["cRecv"]]
        else:
            acts += [["xRecv", "reject" if rej else "accept"], ["cRecv"]]
    c = {"root": root, "price": price, "qty": qty, "style": 0, "actions": acts}
    c.update(cfg or {})
    return c


def chain_cases(rng, tier):
    out = []
    # every reject position 2..13 (single and double), several roots: crosses 9 -> 10
    for root in CHAIN_ROOTS[:4] if tier == "quick" else CHAIN_ROOTS:
        for r in range(2, 14):
            kinds = {r: rng.choice(["F", "G"]), r + 1: rng.choice(["F", "G"])}
            out.append(chain_case(root, r + 2, {r}, kinds, pends={r} if rng.random() < 0.3 else (), cfg=rand_config(rng)))
            if r % 3 == 0:
                out.append(chain_case(root, r + 3, {r, r + 1}, kinds, cfg=rand_config(rng)))
    # 99 -> 100 (and 999 -> 1000 in the thorough tier)
    for r in (98, 99, 100, 101):
        out.append(chain_case(rng.choice(CHAIN_ROOTS), r + 2, {r}, {r: rng.choice(["F", "G"])}, cfg=rand_config(rng)))
    out.append(chain_case("DESK7-ORD", 103, {9, 10, 11, 99, 100, 101}, {}, price=BIG_PRICES[0], cfg=rand_config(rng)))
    if tier == "thorough":
        for r in (999, 1000, 1001):
            out.append(chain_case(rng.choice(CHAIN_ROOTS), r + 2, {r}, {r: "F"}))
    return out


# LATE / DUPLICATED reports: scripts that finish the order (or not), then reports the reference exchange never sends
FINISH_SCRIPTS = {
    "cancel-confirmed": [["cNew"], ["xRecv", "accept"], ["cRecv"], ["cCancel"], ["xRecv", "accept"], ["cRecv"]],
    "cancel-pended-confirmed": [["cNew"], ["xRecv", "accept"], ["cRecv"], ["xFill", 8, 80], ["cRecv"], ["cCancel"], ["xRecv", "pend"],
                                ["cRecv"], ["xDecide", "accept"], ["cRecv"]],
    "filled": [["cNew"], ["xRecv", "accept"], ["cRecv"], ["xFill", 40, 80], ["cRecv"]],
    "filled-while-cancel-in-flight": [["cNew"], ["xRecv", "accept"], ["cRecv"], ["cCancel"], ["xFill", 40, 80], ["cRecv"],
                                      ["xRecv", "accept"], ["cRecv"]],
    "replaced-to-filled": [["cNew"], ["xRecv", "accept"], ["cRecv"], ["xFill", 16, 80], ["cRecv"], ["cReplace", None, 8],
                           ["xRecv", "accept"], ["cRecv"]],
    "expired": [["cNew"], ["xRecv", "accept"], ["cRecv"], ["xExpire"], ["cRecv"]],
    "rejected-new": [["cNew"], ["xRecv", "reject"], ["cRecv"]],
    "live-after-replace": [["cNew"], ["xRecv", "accept"], ["cRecv"], ["cReplace", 88, None], ["xRecv", "accept"], ["cRecv"]],
    "pending-cancel": [["cNew"], ["xRecv", "accept"], ["cRecv"], ["cCancel"], ["xRecv", "pend"], ["cRecv"]],
}


def late_cases(rng, tier):
    """after each script: a duplicate of every report seen so far, and late cancel rejects / execution reports with
    EVERY OrdStatus, answering the cancel or the replace, under the current and the previous ClOrdID"""
    out = []
    statuses = STATUS_POOL
    for name, script in FINISH_SCRIPTS.items():
        base = {"root": "ord", "price": 80, "qty": 40, "style": 0, "actions": list(script)}
        L = make_link(base)
        seen = []
        for a in script:
            res = L.step(a)
            if res[0] == "emit":
                seen += [dict([["35", r[0]]] + r[1:]) for r in res[1]]
        o = L.order
        ids = [o.clord_id, o.orig_clord_id or o.clord_id]
        for d in seen:  # duplicates, singly and twice
            out.append(dict(base, name="dup/" + name, actions=script + [["feed", d]]))
            out.append(dict(base, name="dup2/" + name, actions=script + [["feed", d], ["feed", d]]))
        for st in statuses:
            for resp in ("1", "2"):
                rej = {"35": "9", "11": ids[0], "41": ids[1], "37": "EX1", "39": st, "434": resp}
                out.append(dict(base, name="late-reject/" + name, actions=script + [["feed", rej]]))
            for ex in ("F", "5", "4", "0") if tier == "thorough" else ("F", "5"):
                rep = {"35": "8", "11": rng.choice(ids), "41": None, "37": "EX1", "150": ex, "39": st, "14": 8, "151": 8, "6": 80,
                       "44": 81, "38": 48}
                out.append(dict(base, name="late-exec/" + name, actions=script + [["feed", rep], ["cCancel"]]))
    return out


def burst_cases(rng, n):
    """SIZE: many reports in flight before the client reads any (fills of one tick, suspend / resume pairs)"""
    out = []
    for _ in range(n):
        k = rng.randint(20, 60)
        acts = [["cNew"], ["xRecv", "accept"]]
        for _ in range(k):
            acts.append(rng.choice([["xFill", 1, 80], ["xFill", 3, 81], ["xSuspend"], ["xResume"]]))
        acts.append(rng.choice([["cRecv"], ["cRecv"], ["xExpire"]]))
        acts += [["cRecv"]] * (k + 2)
        acts += [["cReplace", 81, None], ["xRecv", "accept"], ["cRecv"]]
        c = {"root": "ord", "price": 80, "qty": 8 * k, "style": rng.randrange(3), "actions": acts}
        c.update(rand_config(rng))
        out.append(c)
    return out


def load_corpus():
    out = []
    for p in sorted(glob.glob(os.path.join(HERE, "corpus", "orderobj", "*.json"))):
        with open(p) as f:
            d = json.load(f)
        for c in (d if isinstance(d, list) else [d]):
            c.setdefault("name", os.path.basename(p))
            out.append(c)
    return out


# exhaustive small scope ------------------------------------------------------------------------
def ob_price(L):
    return R.num_obs(L.order.price)


def ob_qty(L):
    return R.num_obs(L.order.qty)


def bfs_alphabet(L):
    """~14 concrete actions; parameters chosen relative to the state so that every branch is reachable"""
    ex = L.ex
    lv = ex.leaves if ex.known else 0
    P0, Q0 = getattr(L, "P0", 80), getattr(L, "Q0", 24)
    return [
        ["cNew"], ["cCancel"], ["cReplace", P0 + 1 if ob_price(L) == P0 else P0, None],
        ["cReplace", None, Q0 - 8 if ob_qty(L) == Q0 else Q0], ["cRecv"], ["cRecvOmit", safe_mask(L)],
        ["xRecv", "accept"], ["xRecv", "reject"], ["xRecv", "pend"], ["xDecide", "accept"], ["xDecide", "reject"],
        ["xAck"], ["xFill", 5, 80], ["xFill", 13, 80], ["xFill", lv if lv > 0 else 1, 81], ["xExpire"], ["xSuspend"],
        ["xResume"],
    ]


# ---------------------------------------------------------------------------------------------
# correspondence
# ---------------------------------------------------------------------------------------------
def compare_cases(drv, cases, dis, stats, label):
    lines, spans = [], []
    for c in cases:
        ml = model_lines(c)
        spans.append((len(lines), len(ml)))
        lines += ml
    model = drv.batch(lines) if lines else []
    n = 0
    for c, (lo, ln) in zip(cases, spans):
        impl, _ = run_impl(c)
        mod = model[lo:lo + ln]
        n += ln
        for i, (a, b) in enumerate(zip(impl, mod)):
            br = a.split(" ", 1)[0] + ("/" + a.split(" ")[1] if a.startswith("raise") else "")
            stats["outcomes"][br] = stats["outcomes"].get(br, 0) + 1
            if a != b:
                dis.append({"input": dict({k: v for k, v in c.items() if k not in ("actions", "name")},
                                          actions=c["actions"][:i]), "stream": label, "step": i,
                            "model": b, "impl": a})
                break
    return n


def correspondence(ctx):
    import warnings

    warnings.simplefilter("ignore")
    drv = C.Driver()
    dis = []
    stats = {"outcomes": {}}
    distinct = set()
    evals = 0
    samples = []

    corpus = load_corpus()
    evals += compare_cases(drv, corpus, dis, stats, "corpus")

    # closed system: random interleavings
    n_closed = ctx.n(3000, 50000)
    closed = [rand_case(ctx.rng) for _ in range(n_closed)]
    evals += compare_cases(drv, closed, dis, stats, "interleavings")
    lens = {}
    for c in closed:
        lens[len(c["actions"])] = lens.get(len(c["actions"]), 0) + 1
        distinct.add(json.dumps(c["actions"]))
    samples += [closed[i] for i in (0, len(closed) // 2)]

    # open system: arbitrary / malformed reports
    n_open = ctx.n(1500, 25000)
    opn = [rand_open_case(ctx.rng) for _ in range(n_open)]
    evals += compare_cases(drv, opn, dis, stats, "arbitrary-reports")
    for c in opn:
        distinct.add(json.dumps(c["actions"]))
    samples.append(opn[0])

    # structured streams: long request chains (counter crossing 9->10, 99->100), late / duplicated reports, bursts
    chains = chain_cases(ctx.rng, ctx.tier)
    evals += compare_cases(drv, chains, dis, stats, "request-chains")
    late = late_cases(ctx.rng, ctx.tier)
    evals += compare_cases(drv, late, dis, stats, "late-duplicate-reports")
    bursts = burst_cases(ctx.rng, ctx.n(30, 300))
    evals += compare_cases(drv, bursts, dis, stats, "bursts")
    hooks = hook_cases(ctx.rng, ctx.tier)
    evals += compare_cases(drv, hooks, dis, stats, "misbehaving-hooks")
    hook_steps = sum(1 for c in closed + hooks for a in c["actions"] if a[0][0] == "h")
    for c in chains + late + bursts + hooks:
        distinct.add(json.dumps(c["actions"]))
    big = sum(1 for c in closed if abs(c["price"]) > 10**9 or abs(c["qty"]) > 10**9)

    # clord_root against the regex model: exhaustive over a small alphabet, then random
    from asyncfix.protocol.order_single import FIXNewOrderSingle

    alpha = ["a", "-", "1", "\n", "٣", "7"]
    strs = [""]
    frontier = [""]
    for _ in range(ctx.n(5, 6)):
        frontier = [s + ch for s in frontier for ch in alpha]
        strs += frontier
    for _ in range(ctx.n(2000, 20000)):
        strs.append("".join(ctx.rng.choice(alpha + ["-", "-", "\r", "x", "\U0001d7ce", "୧"])
                            for _ in range(ctx.rng.randint(1, 14))))
    mroots = drv.batch(["oo.root " + u(s) for s in strs])
    root_match = 0
    for s, m in zip(strs, mroots):
        got = u(FIXNewOrderSingle.clord_root(s))
        root_match += got != u(s)
        if got != m:
            dis.append({"input": {"clord_root": s}, "stream": "clord_root", "model": m, "impl": got})
    evals += len(strs)

    # str(float) on the grid against renderGrid
    grid = list(range(-70, 200)) + [ctx.rng.randrange(-10**6, 10**9) for _ in range(ctx.n(500, 5000))] + \
           [ctx.rng.randrange(-2**49 + 1, 2**49) for _ in range(ctx.n(500, 5000))] + [2**49 - 1, -(2**49 - 1), 2**49 - 7]
    mr = drv.batch(["oo.render %d" % n for n in grid])
    for n, m in zip(grid, mr):
        got = u(str(R.g2f(n)))
        if got != m:
            dis.append({"input": {"render": n}, "stream": "render", "model": m, "impl": got})
    evals += len(grid)

    # exhaustive small scope: every interleaving of the 17-action alphabet up to the depth, link states hashed
    bfs_info = bfs(ctx, drv, dis, depth=ctx.n(8, 12), budget_s=420)
    evals += bfs_info["transitions"]
    # … and once more from a float-typed order of large magnitude (price 25e9, quantity 1e12: one-tick re-prices)
    bfs_big = bfs(ctx, drv, dis, depth=ctx.n(7, 10), budget_s=200,
                  case={"root": "DESK7-ORD", "price": BIG_PRICES[0], "qty": BIG_QTYS[1], "cfg": ["EUR/USD", "2", "2", "000000"],
                        "enums": True})
    evals += bfs_big["transitions"]
    exhaustive = bfs_info["complete"] and bfs_big["complete"]

    return {
        "evaluations": evals,
        "distinct_nontrivial": len(distinct) + len(strs) + len(grid) + bfs_info["states"] + bfs_big["states"],
        "rule": "one evaluation = one step (action or fed report) compared as full text: outcome (built request with all tags, "
                "TransactTime canonicalised / return value / exception kind / emitted reports), the order's observable state "
                "(status, clord_id, orig_clord_id, order_id, price, qty, leaves, cum, avg_px, counter, can_cancel, can_replace, "
                "is_finished), queue lengths, reference-exchange state; plus one per clord_root / str(float) comparison. "
                "distinct = distinct action sequences + distinct strings / numbers + distinct link states of the exhaustive search; "
                "`exhaustive` refers to that search only: every interleaving of the 17-action alphabet up to the stated depth "
                "from one initial order (link states hashed)",
        "samples": samples[:3] + [{"clord_root": strs[777], "model": mroots[777]}],
        "exhaustive": exhaustive,
        "distribution": {"closed_cases": n_closed, "open_cases": n_open, "corpus_cases": len(corpus),
                         "closed_lengths": dict(sorted(lens.items())), "clord_root_strings": len(strs),
                         "clord_root_matching": root_match, "render_numbers": len(grid), "bfs": bfs_info, "bfs_large_magnitude": bfs_big,
                         "closed_cases_large_magnitude": big,
                         "request_chains": {"cases": len(chains), "longest_counter": max(sum(1 for a in c["actions"] if a[0] in ("cCancel", "cReplace")) for c in chains) + 1,
                                            "reject_positions": "2..13 single/double, 98..101" + (", 999..1001" if ctx.tier == "thorough" else "")},
                         "late_duplicate_cases": len(late), "burst_cases": len(bursts),
                         "hook_cases": len(hooks), "hook_fault_steps": hook_steps,
                         "config_dimensions": {"tickers": TICKERS, "sides": SIDES, "ord_types": ORD_TYPES, "accounts": ACCOUNTS,
                                               "types": "int/float price, qty, replace args; enum members or str for side / ord_type"}},
        "branches": stats["outcomes"],
        "disagreements": dis,
    }


def ask_chunked(live, lines, chunk=80):
    out = []
    for i in range(0, len(lines), chunk):
        out += live.ask(lines[i:i + chunk])
    return out


def bfs(ctx, drv, dis, depth, budget_s, case=None):
    """exhaustive interleavings to `depth` over the 17-action alphabet, hashing link states;
    model side: a live driver conversation with push/load of link states"""
    t0 = time.time()
    # int-typed constructor arguments (10, 3), integral requests (qty 2.0), fractional fills (0.625, 1.625) and
    # a fractional price (11.125): Replaced reports amend OrderQty to a fractional CumQty (matrix C.3.c)
    case = case or {"root": "ord", "price": 80, "qty": 24, "ptype": "int", "qtype": "int", "argint": True}
    L0 = make_link(case)
    L0.P0, L0.Q0 = case["price"], case["qty"]   # the replace actions toggle between (P0, Q0) and (P0 + one tick, Q0 - 1)
    seen = {L0.key(): 0}
    level = [(L0, 0, [])]
    live = C.LiveDriver()
    transitions = 0
    done_depth = 0
    try:
        ask_chunked(live, [init_line(case), "oo.push"])
        for d in range(depth):
            lines, meta, nxt = [], [], []
            for (L, idx, path) in level:
                for a in bfs_alphabet(L):
                    L2 = L.clone()
                    res = L2.step(a)
                    impl = link_tok(out_tok(res), L2)
                    lines += ["oo.load %d" % idx, action_line(a)]
                    k = L2.key()
                    new = k not in seen
                    if new:
                        seen[k] = len(seen)
                        lines.append("oo.push")
                        nxt.append((L2, seen[k], path + [a]))
                    meta.append((impl, path + [a], new))
            out = ask_chunked(live, lines)
            i = 0
            for impl, path, new in meta:
                mod = out[i + 1]
                i += 3 if new else 2
                transitions += 1
                if impl != mod and len(dis) < 50:
                    dis.append({"input": dict(case, actions=path[:-1], style=0), "stream": "exhaustive", "step": len(path),
                                "model": mod, "impl": impl})
            done_depth = d + 1
            level = nxt
            if time.time() - t0 > budget_s and d + 1 < depth:
                break
    finally:
        live.close()
    return {"depth": done_depth, "states": len(seen), "transitions": transitions, "complete": done_depth == depth,
            "alphabet": 18, "seconds": round(time.time() - t0, 1)}


# ---------------------------------------------------------------------------------------------
# oracle: the property's sentences on the implementation against the Python reference exchange
# ---------------------------------------------------------------------------------------------
def ends_in_chain_suffix(root: str) -> bool:
    """the exclusion of the property text: …--<digits> with something (anything, line breaks too) before it"""
    i = len(root)
    while i > 0 and root[i - 1].isdecimal():
        i -= 1
    return i < len(root) and i >= 2 and root[i - 2:i] == "--" and i - 2 > 0


class Monitor:
    """checks every sentence of C17 that can be checked at a step"""

    def __init__(self, case):
        self.case = case
        self.root = case["root"]
        self.fail = []
        self.built = []
        self.last_cnt = 0
        self.susp_expire = False
        self.susp_replace = False
        self.steps = 0
        self.quiescent = 0
        self.open_system = any(a[0] == "feed" for a in case["actions"])
        self.hook_fault = False   # an application hook raised inside a builder: application code broke its side

    def add(self, sig, what, expected=None, observed=None):
        if not any(f["signature"] == sig for f in self.fail):
            self.fail.append({"signature": sig, "what": what, "input": self.case_upto(), "expected": expected,
                              "observed": observed})

    def case_upto(self):
        c = dict(self.case)
        c["actions"] = self.case["actions"][:self.steps]
        return c

    def pre(self, L, a):
        self.prev_base = L.ex.base if L.ex.known else None

    def __call__(self, L, a, res, before):
        import copy
        import enum
        import math

        self.steps += 1
        o = L.order
        ob = R.order_obs(o)
        a0 = a
        if a[0] == "cRecvOmit":
            a = ["cRecv"]
        if a[0] in ("hNew", "hCancel", "hReplace"):   # builder with a misbehaving hook: judged like the plain builder
            if res[0] == "raise" and res[1] == "Hook":
                self.hook_fault = True
            a = ["c" + a[0][1:]] + list(a[1:-3])
        # a query never changes the order: observing twice gives the same picture
        ob2 = R.order_obs(o)
        if ob2 != ob:
            self.add("C17-query-changes-state", "can_cancel() / can_replace() / is_finished() changed the order", expected=ob, observed=ob2)
        # the gates agree with the transition function for the order's status (also when asked from inside a hook)
        views = [(ob["status"], ob["can_cancel"], ob["can_replace"], "")]
        if res[0] == "built" and len(res) > 3:
            views.append((res[3][0], res[3][1], res[3][2], "-in-hook"))
        for st, cc, cr, where in views:
            want = gates_of(st)
            if want is not None and (cc, cr) != want:
                self.add("C17-gate-vs-transition-function%s:%s" % (where, st),
                         "can_cancel() / can_replace() differ from what change_status() allows for the order's status",
                         expected=list(want), observed=[cc, cr])
        # the two races the known findings are about: expiry of a suspended order, replace accepted while suspended
        if res[0] == "emit" and getattr(self, "prev_base", None) == "9":
            for r in res[1]:
                ex_type = dict(r[1:]).get("150")
                if ex_type == "C":
                    self.susp_expire = True
                if ex_type == "5" and L.ex.base == "9":
                    self.susp_replace = True
        # status is always a member of the enum
        if not isinstance(o.status, enum.Enum) or ob["status"] not in STATUS_VALUES():
            self.add("C17-status-not-enum", "status is not a member of FOrdStatus", observed=repr(o.status))
        # a report of the reference exchange is never refused with an exception
        if a[0] == "cRecv" and res[0] == "raise":
            self.add("C17-report-raises:" + res[1], "processing a report of the reference exchange raised", observed=res)
        # every report that was processed without an exception is absorbed: filled / remaining quantity as
        # reported, and for a Replaced report the echoed price / quantity (whatever Python type the order was built with)
        if a[0] in ("cRecv", "feed") and res[0] == "ret" and L.last_report is not None and L.last_report.get("35") == "8":
            r = L.last_report
            pairs = [("cum", "14"), ("leaves", "151")]
            if r.get("150") == "5":
                pairs += [("price", "44"), ("qty", "38")]
            for k, t in pairs:
                if isinstance(r.get(t), int) and ob[k] != r[t]:
                    self.add("C17-report-not-absorbed:" + k, "after processing an execution report the order's %s is not the reported one" % k,
                             expected=r[t], observed=[ob[k], type(getattr(o, {"cum": "cum_qty", "leaves": "leaves_qty"}.get(k, k))).__name__])
        # a finished order stays finished, whatever arrives (late / duplicated reports, rejects with any OrdStatus)
        if before and before["fin"] is True and (ob["status"] != before["status"] or ob["fin"] is not True
                                                 or ob["can_cancel"] is not False or ob["can_replace"] is not False):
            self.add("C17-finished-order-revived", "a finished order changed status / stopped being finished / accepts requests again",
                     expected=before["status"], observed=[ob["status"], ob["fin"], ob["can_cancel"], ob["can_replace"]])
        # can_* true => the builder succeeds
        hf = self.hook_fault
        if a[0] == "cCancel" and before["can_cancel"] is True and res[0] != "built" and not hf:
            self.add("C17-can-cancel-but-raises:" + str(res[1]), "can_cancel() was true but cancel_req() raised", observed=res)
        if a[0] == "cReplace" and before["can_replace"] is True and res[0] != "built" and not hf:
            p, q = a[1], a[2]
            changes = (p is not None and p != before["price"]) or (q is not None and q != before["qty"] and q != 0)
            if changes or res[1] != "FIXError":
                self.add("C17-can-replace-but-raises:" + str(res[1]), "can_replace() was true, price or qty changes, but replace_req() raised",
                         observed=res)
        probe_qty = (ob["qty"] if isinstance(ob["qty"], int) else 8) + 8
        if probe_qty == 0:
            probe_qty = 16
        for name, f in (("can_cancel", lambda x: x.cancel_req()), ("can_replace", lambda x: x.replace_req(math.nan, R.g2f(probe_qty)))):
            if ob[name] is True:
                if hf:
                    continue
                o2 = copy.deepcopy(o)
                try:
                    f(o2)
                except BaseException as e:  # noqa
                    self.add("C17-%s-but-raises:%s" % (name.replace("_", "-"), R.exc_kind(e)),
                             name + "() is true but the builder raises", observed=repr(e))
            elif ob[name] is not False:
                self.add("C17-%s-raises" % name, name + "() itself raised", observed=ob[name])
        # a built request: fresh ClOrdID of the form root--k, counter strictly increasing, OrigClOrdID = live id
        if res[0] == "built":
            tags = dict((t, v) for t, v in res[2])
            cl = tags.get(11)
            if cl in self.built:
                self.add("C17-clordid-reused", "a ClOrdID was used twice", observed=cl)
            self.built.append(cl)
            if ob["cnt"] <= self.last_cnt:
                self.add("C17-counter-not-increasing", "the ClOrdID counter did not increase", observed=ob["cnt"])
            self.last_cnt = ob["cnt"]
            prev_cnt = before["cnt"] if before else 0
            ok_ids = ["%s--%d" % (self.root, k) for k in range(prev_cnt + 1, ob["cnt"] + 1)]  # a hook may call clord_next() itself
            if not ends_in_chain_suffix(self.root) and cl not in ok_ids:
                sig = "C17-multiline-root" if "\n" in self.root else "C17-clordid-not-root-k"
                self.add(sig, "built ClOrdID is not <root>--<counter>", expected="%s--%d" % (self.root, ob["cnt"]), observed=cl)
            if res[1] in ("F", "G") and not self.open_system:
                if tags.get(41) != L.ex.live_id:
                    self.add("C17-orig-not-live-id", "OrigClOrdID of the request is not the ClOrdID the order is live under at the exchange",
                             expected=L.ex.live_id, observed=tags.get(41))
        if self.open_system:
            return
        # at most one request outstanding
        outstanding = sum(1 for m in L.c2e if str(m.msg_type) in ("F", "G")) + (1 if L.ex.pending else 0) + \
            sum(1 for r in L.e2c if r["35"] == "9" or r.get("150") in ("4", "5"))
        if outstanding > 1:
            self.add("C17-two-requests-outstanding", "more than one cancel/replace request outstanding", observed=outstanding)
        if ob["status"] in ("6", "E") and outstanding == 0 and not self.susp_replace:
            self.add("C17-pending-without-request", "order says a request is pending but none is outstanding", observed=ob["status"])
        if (ob["orig"] is not None) != (ob["status"] in ("6", "E")) and ob["status"] != "4" and not self.susp_replace and not hf:
            self.add("C17-orig-clordid-vs-pending", "orig_clord_id set <=> a request is pending (or the order was canceled) fails",
                     observed=[ob["orig"], ob["status"]])
        if L.quiescent() and L.ex.known:
            self.quiescent += 1
            self.check_converged(L, ob)

    def check_converged(self, L, ob):
        ex = L.ex
        diffs = []
        if ob["status"] != ex.reported():
            diffs.append(["status", ob["status"], ex.reported()])
        for k, v in (("cum", ex.cum), ("leaves", ex.leaves), ("price", ex.price), ("qty", ex.qty)):
            if ob[k] != v:
                diffs.append([k, ob[k], v])
        if ex.reported() in R.FINISHED:
            if ob["fin"] is not True:
                diffs.append(["is_finished", ob["fin"], True])
            if ob["can_cancel"] is not False or ob["can_replace"] is not False:
                diffs.append(["requests-refused", [ob["can_cancel"], ob["can_replace"]], [False, False]])
        if not diffs:
            return
        names = sorted(d[0] for d in diffs)
        if self.susp_expire and not self.susp_replace and ob["status"] == "9" and ex.base == "C" and \
                set(names) <= {"status", "is_finished", "requests-refused"}:
            sig = "C17-suspended-expire-ignored"
        elif self.susp_replace and ob["status"] == "E" and ob["orig"] is None and "cum" not in names and "price" not in names \
                and "qty" not in names and "leaves" not in names:
            sig = "C17-suspended-replace-stuck"
        else:
            sig = "C17-diverged:" + ",".join(names) + ":%s/%s" % (ob["status"], ex.reported())
        self.add(sig, "quiescent (both queues empty) but the order differs from the exchange", expected=exch_tok(ex),
                 observed=order_tok(ob))


_GATES = {}


def gates_of(status: str):
    """(can_cancel, can_replace) as the transition function itself answers for this status value"""
    if status not in _GATES:
        from asyncfix import FMsg
        from asyncfix.protocol.common import FOrdStatus
        from asyncfix.protocol.order_single import FIXNewOrderSingle

        try:
            st = FOrdStatus(status)
        except ValueError:
            _GATES[status] = None
        else:
            cs = FIXNewOrderSingle.change_status
            _GATES[status] = (cs(st, FMsg.ORDERCANCELREQUEST, 0, FOrdStatus.PENDING_CANCEL, raise_on_err=False) is not None,
                              cs(st, FMsg.ORDERCANCELREPLACEREQUEST, 0, FOrdStatus.PENDING_REPLACE, raise_on_err=False) is not None)
    return _GATES[status]


_SV = []


def STATUS_VALUES():
    if not _SV:
        from asyncfix.protocol.common import FOrdStatus

        _SV.extend(str(m.value) for m in FOrdStatus)
    return _SV


def oracle_case(case):
    mon = Monitor(case)
    L, first = new_link(case)
    if L is None:
        return mon
    style = case.get("style", 0)
    for a in case["actions"]:
        before = R.order_obs(L.order)
        mon.pre(L, a)
        res = L.step(a, style)
        mon(L, a, res, before)
    return mon


def root_oracle(roots):
    """clord_root(root) = root and clord_root(root--k) = root for every root the property covers"""
    from asyncfix.protocol.order_single import FIXNewOrderSingle

    fails = []
    for root in roots:
        if not root or ends_in_chain_suffix(root):
            continue
        for k in (1, 9, 10, 123456789012345678901234567890):
            got0 = FIXNewOrderSingle.clord_root(root)
            got = FIXNewOrderSingle.clord_root("%s--%d" % (root, k))
            if got != root or got0 != root:
                sig = "C17-multiline-root" if "\n" in root else "C17-root-extraction"
                fails.append({"signature": sig, "what": "clord_root does not give back the root the ids were built from",
                              "input": {"clord_root": root, "k": k}, "expected": root, "observed": [got0, got]})
                break
    return fails


def oracle(ctx, disagreements, broken):
    import warnings

    warnings.simplefilter("ignore")
    failures = []
    stats = {"cases": 0, "steps": 0, "quiescent_points": 0}

    def run(case):
        mon = oracle_case(case)
        stats["cases"] += 1
        stats["steps"] += mon.steps
        stats["quiescent_points"] += mon.quiescent
        failures.extend(mon.fail)

    # witnesses of the open findings + corpus
    for f in C.load_findings(PROP):
        w = f.get("witness")
        if isinstance(w, dict) and "actions" in w:
            run(w)
        elif isinstance(w, dict) and "clord_root" in w:
            failures.extend(root_oracle([w["clord_root"]]))
    for c in load_corpus():
        run(c)
    # the disagreeing inputs first
    for d in disagreements:
        inp = d.get("input", {})
        if "actions" in inp:
            # the disagreement is at the step after the recorded prefix: extend by every alphabet action
            run(inp)
            L, _ = new_link(inp)
            if L is not None:
                L.P0, L.Q0 = inp["price"], inp["qty"]
                for a in inp["actions"]:
                    L.step(a, inp.get("style", 0))
                for a in bfs_alphabet(L):
                    run(dict(inp, actions=inp["actions"] + [a]))
                    for b in bfs_alphabet(L)[:8]:
                        run(dict(inp, actions=inp["actions"] + [a, b]))
        elif "clord_root" in inp:
            failures.extend(root_oracle([inp["clord_root"]]))
    for c in chain_cases(ctx.rng, "quick") + late_cases(ctx.rng, "quick") + burst_cases(ctx.rng, 10) + hook_cases(ctx.rng, "quick"):
        run(c)
    n = ctx.n(1200, 15000) * (3 if broken else 1)
    for _ in range(n):
        run(rand_case(ctx.rng, maxlen=30))
    for _ in range(n // 3):
        run(rand_open_case(ctx.rng))
    roots = ROOTS_GOOD + ROOTS_ODD + ["".join(ctx.rng.choice(["a", "-", "1", "\n", "x"]) for _ in range(ctx.rng.randint(1, 8)))
                                      for _ in range(ctx.n(300, 3000))]
    failures.extend(root_oracle(roots))
    stats["roots"] = len(roots)
    stats["failures"] = len(failures)
    ctx.oracle_stats = stats
    return failures


def replay(ctx, rp):
    import warnings

    warnings.simplefilter("ignore")
    inp = rp["input"]
    if "clord_root" in inp:
        fs = root_oracle([inp["clord_root"]])
    else:
        fs = oracle_case(inp).fail
    sigs = [f["signature"] for f in fs]
    print("replay:", json.dumps(inp)[:400], "->", sigs)
    return rp["signature"] in sigs
